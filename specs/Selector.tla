------------------------------- MODULE Selector -------------------------------
(***************************************************************************)
(* Design model of BaseSelector._select_features for one feature type and  *)
(* one measure: Rank (any order consistent with the measures, undefined    *)
(* ones dropped), FilterStep (one ranked feature at a time), Cut.          *)
(***************************************************************************)
EXTENDS SelectorOps
CONSTANTS Feats, Levels, NBests,    \* measures range over Levels \cup {UNDEF}
AVals                               \* inter-feature associations (Thr = 5: 0 below, 5 exactly at, 10 above the threshold)
VARIABLES m, a, nbest, ranked, pos, kept, result, phase
vars == <<m, a, nbest, ranked, pos, kept, result, phase>>
Thr == 5
Perms(S) == {p \in [1..Cardinality(S) -> S] : Rng(p) = S}
SymMatrices == {x \in [Feats -> [Feats -> AVals \cup {0}]] : \A f, g \in Feats : x[f][g] = x[g][f] /\ x[f][f] = 0}

Init == /\ m \in [Feats -> Levels \cup {UNDEF}] /\ a \in SymMatrices /\ nbest \in NBests
        /\ ranked = <<>> /\ pos = 1 /\ kept = <<>> /\ result = <<>> /\ phase = "rank"
Rank == /\ phase = "rank"
        /\ \E p \in Perms({f \in Feats : Defined(m, f)}) :
             /\ \A i \in 1..(Len(p) - 1) : m[p[i]] >= m[p[i + 1]]        \* ties in any order
             /\ ranked' = p
        /\ phase' = "filter"
        /\ UNCHANGED <<m, a, nbest, pos, kept, result>>
FilterStep ==
  /\ phase = "filter" /\ pos <= Len(ranked)
  /\ LET f == ranked[pos] IN
       kept' = IF \E i \in DOMAIN kept : a[f][kept[i]] > Thr THEN kept ELSE Append(kept, f)
  /\ pos' = pos + 1
  /\ UNCHANGED <<m, a, nbest, ranked, result, phase>>
Cut == /\ phase = "filter" /\ pos > Len(ranked)
       /\ result' = SubSeq(kept, 1, IF Len(kept) < nbest THEN Len(kept) ELSE nbest)
       /\ phase' = "done"
       /\ UNCHANGED <<m, a, nbest, ranked, pos, kept>>
Next == Rank \/ FilterStep \/ Cut
Spec == Init /\ [][Next]_vars /\ WF_vars(Next)

Inv_C14 == phase = "done" =>
  /\ C14Distinct(result, Feats) /\ C14Ordered(m, result, 0) /\ C14AtMost(result, nbest)
  /\ C14Uncorrelated(a, result, Thr, 0) /\ C14AllDefined(m, result)
  /\ C14Omitted(m, a, result, Feats, Thr, nbest, 0)
(* C15: the strictly best-ranked defined feature is always returned *)
Inv_C15_Top == phase = "done" =>
  \A f \in Feats : (Defined(m, f) /\ \A g \in Feats \ {f} : Defined(m, g) => m[g] < m[f]) => f \in Rng(result)
Termination == <>(phase = "done")
=============================================================================
