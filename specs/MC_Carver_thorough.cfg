CONSTANTS
  Kind = "bin"
  MaxK = 4
  MaxCell = 2
  YVals = {0}
  MaxMods = {2, 3, 4}
  Thresholds <- ThrA
  Measures = {"cramerv", "tschuprowt"}
  DevFlags = {FALSE}
  NanFlags = {FALSE}
  DropFlags = {TRUE}
SPECIFICATION Spec
INVARIANT Inv_C01_opt
INVARIANT Inv_C01_drop
INVARIANT Inv_C02
INVARIANT Inv_C03
INVARIANT Inv_C16_hist
CHECK_DEADLOCK FALSE
