---------------------------- MODULE MulticlassOps ----------------------------
(* Class labels are sequences of character codes; MulticlassCarver orders them as strings. *)
EXTENDS Integers, Sequences, FiniteSets
RECURSIVE LexLt(_, _)
LexLt(a, b) == IF a = <<>> THEN b # <<>>
               ELSE IF b = <<>> THEN FALSE
               ELSE IF Head(a) < Head(b) THEN TRUE
               ELSE IF Head(a) > Head(b) THEN FALSE
               ELSE LexLt(Tail(a), Tail(b))
(* index (in `labels`) of the class that sorts first: it gets no column *)
FirstClass(labels) == CHOOSE i \in DOMAIN labels : \A j \in DOMAIN labels : j # i => LexLt(labels[i], labels[j])
(* the columns a one-vs-rest reading creates: <<feature, class>> for every class but the first, *)
(* when the BinaryCarver on the indicator of that class keeps the feature                        *)
ExpectedCols(labels, binkept) ==
  UNION {{<<f, c>> : f \in binkept[c]} : c \in DOMAIN labels \ {FirstClass(labels)}}
=============================================================================
