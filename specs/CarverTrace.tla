---------------------------- MODULE CarverTrace ----------------------------
(***************************************************************************)
(* Trace validation (code -> spec) of one carved feature.  A case holds    *)
(* the observed base table `tab` (what the carver's own internal           *)
(* Discretizer produced, per-bucket target counts on train / dev), the     *)
(* configuration `cfg`, one event per row of history() (raw distribution,  *)
(* tested / not-checked combinations with measure and verdict), the fitted *)
(* grouping `final`, the flag `kept` and the rows of transform(X_train) /  *)
(* transform(X_dev).  The events are replayed through the stages of        *)
(* Carver.tla (conformance clauses Conf_xxx), and the property clauses of  *)
(* C01 / C02 / C03 / C16 are evaluated on the OBSERVED result.             *)
(***************************************************************************)
EXTENDS CarverOps, Json, IOUtils

Cases == JsonDeserialize(IOEnv.TRACE_FILE).cases

VARIABLES tid, l, g1, prev, sawViable, rows1, rows2, fail, done
vars == <<tid, l, g1, prev, sawViable, rows1, rows2, fail, done>>

C      == Cases[tid]
Events == C.events
Tab    == C.tab
Cfg    == [measure |-> C.cfg.measure, maxmod |-> C.cfg.maxmod, mfm |-> C.cfg.mfm,
           dropna |-> C.cfg.dropna, hasdev |-> C.cfg.hasdev, hasnan |-> C.cfg.hasnan]
ToSets(g) == [i \in DOMAIN g |-> CRng(g[i])]
Final  == ToSets(C.final)

Init == /\ tid \in 1..Len(Cases) /\ l = 1 /\ g1 = <<>> /\ prev = <<>> /\ sawViable = FALSE
        /\ rows1 = {} /\ rows2 = {} /\ fail = {} /\ done = FALSE

Flag(cond, name) == IF cond THEN {} ELSE {name}

(* ---- one history row ---- *)
RawGrouping == Singletons(Tab.k) \o (IF Cfg.hasnan THEN <<{0}>> ELSE <<>>)

JudgeRow(e) ==
  LET G  == ToSets(e.g)
      st == e.stage
      cands == IF st = 1 THEN Cands1(Tab, Cfg) ELSE (IF g1 = <<>> THEN {} ELSE Cands2(g1, Cfg))
      sv == IF prev # <<>> /\ prev[2] # st THEN FALSE ELSE sawViable      \* a new stage starts afresh
  IN  IF e.ev = "raw"
      THEN Flag(l = 1, "Conf_raw_not_first") \cup Flag(G = RawGrouping, "Conf_raw_grouping")
      ELSE Flag(G \in cands, "Conf_not_a_candidate")
      \cup (IF G \notin cands \/ e.m = 0 - 1 THEN {}
            ELSE Flag(MeasureValueOK(Tab, Cfg, st, G, e.m), "C16_hist_measure_value"))
      \cup (IF G \notin cands THEN {} ELSE
              \* tested in non-increasing measure
              (IF prev = <<>> \/ prev[2] # st THEN {}
                 ELSE Flag(~Better(Tab, Cfg, st, G, prev[1]), "Conf_test_order"))
              \* the logged verdict lies between the Strict and the Loose reading
           \cup (IF e.viab = -1 THEN Flag(sv, "Conf_unchecked_before_viable")
                 ELSE Flag(~sv, "Conf_checked_after_viable")
                 \cup Flag((ViableStrict(Tab, Cfg, st, G) => e.viab = 1)
                           /\ (e.viab = 1 => ViableLoose(Tab, Cfg, st, G)), "Conf_verdict")))

StepRow ==
  /\ ~done /\ l <= Len(Events)
  /\ LET e == Events[l] IN
     IF e.ev = "removed_mark"
     THEN /\ UNCHANGED <<g1, prev, sawViable, rows1, rows2, fail>>
     ELSE LET G == ToSets(e.g) IN
       /\ fail' = fail \cup JudgeRow(e)
       /\ g1' = IF e.ev = "tested" /\ e.stage = 1 /\ e.viab = 1 THEN G ELSE g1
       /\ prev' = IF e.ev = "tested" THEN <<G, e.stage>> ELSE prev
       /\ sawViable' = IF e.ev = "tested" /\ e.viab = 1 THEN TRUE
                       ELSE IF e.ev = "tested" /\ prev # <<>> /\ prev[2] # e.stage THEN FALSE
                       ELSE sawViable
       /\ rows1' = IF e.ev = "tested" /\ e.stage = 1 THEN rows1 \cup {<<G, e.viab>>} ELSE rows1
       /\ rows2' = IF e.ev = "tested" /\ e.stage = 2 THEN rows2 \cup {<<G, e.viab>>} ELSE rows2
  /\ l' = l + 1
  /\ UNCHANGED <<tid, done>>

-----------------------------------------------------------------------------
(* ---- property clauses on the observed result ---- *)
Contiguous(S) == \A a, b \in S : \A x \in 1..Tab.k : (a < x /\ x < b) => x \in S

LastViable(rows) == {r \in rows : r[2] = 1}

HistClauses ==
  IF ~C.histok THEN {"C16_hist_unreadable"}
  ELSE
    LET st2 == HasStage2(Tab, Cfg)
        lastRows == IF st2 THEN rows2 ELSE rows1
    IN  (IF ~C.kept THEN {}
         ELSE Flag(Len(Events) >= 1 /\ Events[1].ev = "raw", "C16_hist_raw_missing")
         \cup Flag(\E r \in LastViable(lastRows) :
                      IF st2 THEN r[1] = Final ELSE r[1] = DropNan(Final), "C16_hist_last_viable")
         \* every candidate strictly better than the fitted one was tested and refused
         \cup Flag(\A c \in Cands1(Tab, Cfg) :
                      (g1 # <<>> /\ Better(Tab, Cfg, 1, c, g1)) => <<c, 0>> \in rows1, "C16_hist_tested_rows"))
   \cup Flag(Cardinality(LastViable(rows1)) <= 1 /\ Cardinality(LastViable(rows2)) <= 1, "C16_hist_two_viable")

(* transform outputs: rows are <<label code (0 = missing), y, input-was-missing>> *)
LabelsOf(rows) == {rows[i][1] : i \in DOMAIN rows} \ {0}
CountOf(rows, lab) == Cardinality({i \in DOMAIN rows : rows[i][1] = lab})
SumYOf(rows, lab) == LET RECURSIVE s(_)
                         s(i) == IF i > Len(rows) THEN 0 ELSE (IF rows[i][1] = lab THEN rows[i][2] ELSE 0) + s(i + 1)
                     IN s(1)
NonMissing(rows) == Cardinality({i \in DOMAIN rows : rows[i][3] = 0})
Denominator(rows) == IF Cfg.dropna THEN Len(rows) ELSE NonMissing(rows)
OutFreqOK(rows) == \A lab \in LabelsOf(rows) : CountOf(rows, lab) * Cfg.mfm[2] >= Cfg.mfm[1] * Denominator(rows)
OutNanOK(rows) == IF Cfg.dropna THEN \A i \in DOMAIN rows : rows[i][1] # 0
                  ELSE \A i \in DOMAIN rows : (rows[i][1] = 0) <=> (rows[i][3] = 1)
MeanLt(rows, a, b) == SumYOf(rows, a) * CountOf(rows, b) < SumYOf(rows, b) * CountOf(rows, a)

OutClauses ==
  IF ~C.kept THEN {}
  ELSE LET tr == C.out_tr  dv == C.out_dv IN
        Flag(Cardinality(LabelsOf(tr)) <= Cfg.maxmod, "C02_max_n_mod")
   \cup Flag(OutFreqOK(tr), "C02_min_freq_mod")
   \cup Flag(OutNanOK(tr), "C02_missing_values")
   \cup (IF ~Cfg.hasdev THEN {}
         ELSE Flag(LabelsOf(dv) = LabelsOf(tr), "C02_dev_label_set")
         \cup Flag(OutFreqOK(dv), "C02_dev_min_freq_mod")
         \cup Flag(OutNanOK(dv), "C02_dev_missing_values")
         \cup Flag(\A a, b \in LabelsOf(tr) \cap LabelsOf(dv) :
                      ~(MeanLt(tr, a, b) /\ MeanLt(dv, b, a)), "C02_dev_rank_inversion"))

(* C03: the base modalities of a categorical feature are ordered by training target rate *)
BaseOrderClauses ==
  IF C.fkind # "categ" THEN {}
  ELSE Flag(\A i \in 1..(Tab.k - 1) :
               (RateDefined(Tab, "tr", {i}) /\ RateDefined(Tab, "tr", {i + 1})) => ~RateLt(Tab, "tr", {i + 1}, {i}),
            "C03_categorical_not_in_target_rate_order")

ResultClauses ==
  BaseOrderClauses \cup
  (IF C.kept
   THEN Flag(C01Opt(Tab, Cfg, Final), "C01_opt")
        \cup Flag(\A i \in DOMAIN Final : Contiguous(Final[i] \ {0}), "C03_carve_contiguous")
        \cup Flag(C02Bounds(Tab, Cfg, Final), "C02_grouping_bounds")
   ELSE Flag(C01Drop(Tab, Cfg), "C01_drop"))

(* facts reported next to the verdict: how many candidates, whether the case was non-trivial *)
Info == [ncand |-> IF Tab.k >= 2 THEN Cardinality(Cands1(Tab, Cfg)) ELSE 0,
         nstrict |-> IF Tab.k >= 2 THEN Cardinality({c \in Cands1(Tab, Cfg) : ViableStrict(Tab, Cfg, 1, c)}) ELSE 0,
         stage2 |-> HasStage2(Tab, Cfg)]

Finish ==
  /\ ~done /\ l > Len(Events)
  /\ LET f == fail \cup ResultClauses \cup HistClauses \cup OutClauses IN
       /\ fail' = f
       /\ done' = PrintT(<<"VERDICT", tid, f, Info>>)
  /\ UNCHANGED <<tid, l, g1, prev, sawViable, rows1, rows2>>

Next == StepRow \/ Finish
Spec == Init /\ [][Next]_vars
=============================================================================
