------------------------------- MODULE BaseOps -------------------------------
(***************************************************************************)
(* Pure operators of the base discretization stage:                        *)
(*  - ContinuousDiscretizer.find_quantiles (recursive quantile search),    *)
(*  - the rare-modality merge of OrdinalDiscretizer (find_common_modalities*)
(*    / find_closest_modality), also used by QuantitativeDiscretizer with  *)
(*    min_freq/2,                                                           *)
(*  - CategoricalDiscretizer (default group + ordering by target rate).    *)
(* Values are integer ranks; a sample of a quantitative feature is the     *)
(* sorted sequence of its non-missing values; thresholds are <<num, den>>. *)
(***************************************************************************)
EXTENDS Integers, Sequences, FiniteSets, SequencesExt, TLC

BRng(s) == {s[i] : i \in DOMAIN s}

(* round-half-to-even of a / b (a >= 0, b > 0): Python's round() *)
RoundHalfEven(a, b) ==
  LET fl == a \div b  r2 == 2 * (a % b)
  IN  IF r2 < b THEN fl ELSE IF r2 > b THEN fl + 1 ELSE (IF fl % 2 = 0 THEN fl ELSE fl + 1)

(* q = round(1 / min_freq) *)
QOf(mf) == RoundHalfEven(mf[2], mf[1])

CountIn(df, v) == Cardinality({i \in DOMAIN df : df[i] = v})

(* ---- ContinuousDiscretizer: boundaries of a sorted sample df (missing values excluded), ---- *)
(* ---- lenDf = number of rows including the missing ones                                  ---- *)
RECURSIVE QFind(_, _, _)
QFind(df, q, lenDf) ==
  IF df = <<>> THEN {}
  ELSE LET vals == BRng(df)
           freq == {v \in vals : CountIn(df, v) * q >= lenDf}
       IN  IF freq # {}
           THEN LET gap(x) == Cardinality({f \in freq : f < x})
                    seg(g) == SelectSeq(df, LAMBDA x : x \notin freq /\ gap(x) = g)
                IN  freq \cup UNION {QFind(seg(g), q, lenDf) : g \in 0..Cardinality(freq)}
           ELSE LET n  == Len(df)
                    nq == RoundHalfEven(n * q, lenDf)
                IN  IF nq > 1 THEN {df[((n - 1) * k) \div nq + 1] : k \in 1..(nq - 1)}
                    ELSE {df[n]}
Quantiles(df, mf, lenDf) == QFind(df, QOf(mf), lenDf)

(* ---- property C09, ContinuousDiscretizer ---- *)
Frequent(df, mf, lenDf) == {v \in BRng(df) : CountIn(df, v) * mf[2] >= mf[1] * lenDf}
(* rows of df in the bucket (lo, hi] *)
BucketCount(df, lo, hi) == Cardinality({i \in DOMAIN df : lo < df[i] /\ df[i] <= hi})
BucketFreeOfFrequent(df, mf, lenDf, lo, hi) == \A v \in Frequent(df, mf, lenDf) : ~(lo < v /\ v <= hi)

(* ---- rare-modality merge (ordinal features, and quantile buckets with min_freq/2) ---- *)
(* a modality: [m |-> set of member ids, n |-> rows, s |-> sum of y, u |-> s is undefined (NaN)] *)
RateDef(g) == g.n > 0 /\ ~g.u
(* |rate(a) - rate(c)| > |rate(b) - rate(c)| ; any undefined rate makes the comparison false *)
AbsDiffNum(a, c) == LET x == a.s * c.n - c.s * a.n IN IF x < 0 THEN -x ELSE x      \* over a.n * c.n
FartherThan(a, b, c) ==
  RateDef(a) /\ RateDef(b) /\ RateDef(c) /\ AbsDiffNum(a, c) * b.n > AbsDiffNum(b, c) * a.n
Below(g, mf, lenDf) == g.n * mf[2] < mf[1] * lenDf
ArgMinIdx(gs) == CHOOSE i \in DOMAIN gs : /\ \A j \in DOMAIN gs : gs[i].n <= gs[j].n
                                          /\ \A j \in DOMAIN gs : (gs[j].n = gs[i].n) => i <= j
ClosestIdx(gs, i, mf, lenDf) ==
  IF i = 1 THEN 2
  ELSE IF i = Len(gs) THEN i - 1
  ELSE LET p == gs[i - 1]  c == gs[i]  nx == gs[i + 1]
           pb == Below(p, mf, lenDf)  nb == Below(nx, mf, lenDf)
       IN  IF (nb /\ ~pb)
              \/ ((nb = pb) /\ ((c.n = 0 /\ nx.n < p.n)
                                \/ (RateDef(c) /\ c.s > 0 /\ FartherThan(p, nx, c))))
           THEN i + 1 ELSE i - 1
(* the two target-rate distances are exactly equal: the library's float comparison may go either way *)
RateTie(gs, i) ==
  /\ i > 1 /\ i < Len(gs)
  /\ LET p == gs[i - 1]  c == gs[i]  nx == gs[i + 1] IN
       RateDef(p) /\ RateDef(nx) /\ RateDef(c) /\ AbsDiffNum(p, c) * nx.n = AbsDiffNum(nx, c) * p.n
ClosestIdxSet(gs, i, mf, lenDf) ==
  IF RateTie(gs, i) THEN {ClosestIdx(gs, i, mf, lenDf), i + 1} ELSE {ClosestIdx(gs, i, mf, lenDf)}
MergeInto(gs, d, k) ==
  LET merged == [m |-> gs[d].m \cup gs[k].m, n |-> gs[d].n + gs[k].n, s |-> gs[d].s + gs[k].s,
                 u |-> gs[d].u \/ gs[k].u]
      upd == [i \in DOMAIN gs |-> IF i = k THEN merged ELSE gs[i]]
  IN  SelectSeq([i \in DOMAIN upd |-> [g |-> upd[i], keep |-> i # d]], LAMBDA r : r.keep)
MergeStep(gs, mf, lenDf) ==
  LET d == ArgMinIdx(gs)  k == ClosestIdx(gs, d, mf, lenDf)
      r == MergeInto(gs, d, k)
  IN  [i \in DOMAIN r |-> r[i].g]
NeedsMerge(gs, mf, lenDf) == Len(gs) > 1 /\ \E i \in DOMAIN gs : Below(gs[i], mf, lenDf)
RECURSIVE MergeAll(_, _, _)
MergeAll(gs, mf, lenDf) == IF NeedsMerge(gs, mf, lenDf) THEN MergeAll(MergeStep(gs, mf, lenDf), mf, lenDf) ELSE gs

(* a grouping (sequence of sets of ids 1..K) keeps the order: every group is a run of consecutive ids *)
RunOK(S, K) == \A a, b \in S : \A x \in 1..K : (a < x /\ x < b) => x \in S
=============================================================================
