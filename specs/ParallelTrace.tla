---------------------------- MODULE ParallelTrace ----------------------------
(***************************************************************************)
(* Judge of the spec -> code replays for C10.  A case is one dataset:      *)
(* ref[f] = code of the projection (values_orders[f], transform(X)[f]) of  *)
(* feature f fitted ALONE with n_jobs = 1; runs = executions of the real   *)
(* code under a feature iteration order `perm`, a worker completion order  *)
(* `comp` (replayed through the fake pool), `workers`, a `kind` tag, and   *)
(* res[f] = code of the projection obtained for feature f in that run      *)
(* (0 = feature absent from the run).                                      *)
(***************************************************************************)
EXTENDS Integers, Sequences, FiniteSets, TLC, Json, IOUtils
Cases == JsonDeserialize(IOEnv.TRACE_FILE).cases
VARIABLES tid, done
vars == <<tid, done>>
C == Cases[tid]
Rng(s) == {s[i] : i \in DOMAIN s}
PosIn(seq, v) == CHOOSE i \in DOMAIN seq : seq[i] = v
(* comp is a completion order the pool of Parallel.tla can produce for submission order perm *)
Feasible(perm, comp, w) ==
  /\ Rng(comp) = Rng(perm) /\ Len(comp) = Len(perm)
  /\ \A k \in DOMAIN comp : PosIn(perm, comp[k]) <= (k - 1) + w
RunClauses(r) ==
  (IF r.comp # <<>> /\ ~Feasible(r.perm, r.comp, r.workers) THEN {"Drv_infeasible_schedule"} ELSE {})
  \cup (IF \A f \in DOMAIN r.res : r.res[f] = 0 \/ r.res[f] = C.ref[f] THEN {}
        ELSE {r.clause})
Clauses == UNION {RunClauses(C.runs[i]) : i \in DOMAIN C.runs}
Init == tid \in 1..Len(Cases) /\ done = FALSE
Judge == /\ ~done /\ done' = PrintT(<<"VERDICT", tid, Clauses>>) /\ UNCHANGED tid
Spec == Init /\ [][Judge]_vars
=============================================================================
