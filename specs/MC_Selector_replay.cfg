CONSTANTS
  AVals = {0, 5, 10}
  Feats = {1, 2, 3}
  Levels = {1, 2, 3}
  NBests = {1, 2, 3}
SPECIFICATION Spec
INVARIANT Inv_C14
INVARIANT Inv_C15_Top
CHECK_DEADLOCK FALSE
