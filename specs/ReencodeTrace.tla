---------------------------- MODULE ReencodeTrace ----------------------------
(***************************************************************************)
(* Judge for C11 / C15 style paired runs.  A case is one sample fitted by  *)
(* the real code in its original encoding (`ref`) and under several        *)
(* information-preserving re-encodings (`variants`).                        *)
(*   ref / variant = [kept |-> Seq of feature ids (kept features, or the    *)
(*                     selected list for selectors),                       *)
(*                    parts |-> per feature id: Seq of label codes per row  *)
(*                     (rows in the ORIGINAL row order; <<>> if not kept),  *)
(*                    absin |-> per feature id: Seq of rank codes of the    *)
(*                     input column, rows in the original order]            *)
(* TLC checks (i) that the re-encoding left the abstract input unchanged   *)
(* (a guard on the driver), (ii) equal kept sets, (iii) equal partitions   *)
(* of the rows (as equivalence relations, label names are free).           *)
(***************************************************************************)
EXTENDS Integers, Sequences, FiniteSets, TLC, Json, IOUtils
Cases == JsonDeserialize(IOEnv.TRACE_FILE).cases
VARIABLES tid, done
vars == <<tid, done>>
C == Cases[tid]
Rng(s) == {s[i] : i \in DOMAIN s}
SamePartition(a, b) == /\ Len(a) = Len(b)
                       /\ \A i, j \in DOMAIN a : (a[i] = a[j]) <=> (b[i] = b[j])
(* ordered lists (selectors): equal up to exchanging features whose measures are exactly tied *)
Abs(x) == IF x < 0 THEN 0 - x ELSE x
SameUpToTies(a, b) ==
  /\ Len(a) = Len(b)
  /\ \A i \in DOMAIN a : a[i] = b[i] \/ (a[i] \in DOMAIN C.tie_m /\ b[i] \in DOMAIN C.tie_m
                                         /\ C.tie_m[a[i]] # 0 - 1 /\ Abs(C.tie_m[a[i]] - C.tie_m[b[i]]) <= 3
                                         /\ C.tie_g[a[i]] = C.tie_g[b[i]])
VariantClauses(v) ==
  IF v.absin # C.ref.absin THEN {"Drv_abstract_input_differs"}
  ELSE (IF (IF C.ordered THEN (IF v.strict THEN v.kept = C.ref.kept ELSE SameUpToTies(v.kept, C.ref.kept))
                         ELSE Rng(v.kept) = Rng(C.ref.kept)) THEN {} ELSE {v.clause_kept})
  \cup (IF \A f \in Rng(v.kept) \cap Rng(C.ref.kept) : SamePartition(v.parts[f], C.ref.parts[f]) THEN {} ELSE {v.clause_part})
Clauses == UNION {VariantClauses(C.variants[i]) : i \in DOMAIN C.variants}
Init == tid \in 1..Len(Cases) /\ done = FALSE
Judge == /\ ~done /\ done' = PrintT(<<"VERDICT", tid, Clauses>>) /\ UNCHANGED tid
Spec == Init /\ [][Judge]_vars
=============================================================================
