------------------------------- MODULE Chained -------------------------------
(***************************************************************************)
(* Design model of ChainedDiscretizer.fit for one feature: one action per  *)
(* level of the hierarchy (the frequencies are computed once per level,    *)
(* then every rare member of the level is merged into its parent).         *)
(***************************************************************************)
EXTENDS ChainedOps

CONSTANTS Trees,      \* set of records [par |-> <<..>>, lvl |-> <<..>>] (MC_Chained.tla)
          MaxCount, Thresholds, NanCounts

VARIABLES tree, cnt, n, mf, level, cur, leader
vars == <<tree, cnt, n, mf, level, cur, leader>>

M == Len(tree.par)
MaxLevel == LET S == {tree.lvl[v] : v \in 1..M} IN CHOOSE x \in S : \A y \in S : y <= x

Init ==
  /\ tree \in Trees /\ mf \in Thresholds
  /\ cnt \in [1..Len(tree.par) -> 0..MaxCount]
  /\ \E nn \in NanCounts : n = nn + LET RECURSIVE sm(_)
                                       sm(i) == IF i > Len(tree.par) THEN 0 ELSE cnt[i] + sm(i + 1) IN sm(1)
  /\ n > 0
  /\ level = 1
  /\ cur = cnt                                   \* rows currently labelled with each node
  /\ leader = [v \in 1..Len(tree.par) |-> v]     \* group leader of each node

(* level i: members are the nodes of level i-1 that have a parent; frequencies are taken before *)
MergeLevel ==
  /\ level <= MaxLevel
  /\ LET movers == {v \in 1..M : tree.lvl[v] = level - 1 /\ tree.par[v] # 0 /\ Rare(cur[v], mf, n)}
     IN  /\ cur' = [v \in 1..M |->
                      IF v \in movers THEN 0
                      ELSE cur[v] + LET RECURSIVE sm(_)
                                        sm(S) == IF S = {} THEN 0 ELSE LET c == CHOOSE x \in S : TRUE IN cur[c] + sm(S \ {c})
                                    IN sm({c \in movers : tree.par[c] = v})]
         /\ leader' = [v \in 1..M |-> IF leader[v] \in movers THEN tree.par[leader[v]] ELSE leader[v]]
  /\ level' = level + 1
  /\ UNCHANGED <<tree, cnt, n, mf>>

Next == MergeLevel
Spec == Init /\ [][Next]_vars /\ WF_vars(Next)
Finished == level > MaxLevel

-----------------------------------------------------------------------------
(* C18 *)
Inv_C18_Along   == \A v \in 1..M : leader[v] = v \/ leader[v] \in Ancestors(tree.par, v)
Inv_C18_RowsKept == LET RECURSIVE sm(_)
                        sm(i) == IF i > M THEN 0 ELSE cur[i] + sm(i + 1)
                        RECURSIVE sc(_)
                        sc(i) == IF i > M THEN 0 ELSE cnt[i] + sc(i + 1)
                    IN sm(1) = sc(1)
Inv_C18_Final == Finished =>
  /\ \A v \in 1..M : leader[v] = FinalLeader(tree.par, cnt, mf, n, v)
  \* a value of the first level stays its own modality iff it is frequent enough (or has no parent)
  /\ \A v \in 1..M : (tree.lvl[v] = 0 /\ tree.par[v] # 0) => ((leader[v] = v) <=> ~Rare(cnt[v], mf, n))
  \* a group that is still rare is a root of the hierarchy
  /\ \A a \in {leader[v] : v \in 1..M} : Rare(cur[a], mf, n) => tree.par[a] = 0
Termination == <>Finished
=============================================================================
