CONSTANTS
  U = {1, 2, 3, 4, 5}
  StrSet = {1, 2, 3}
  NanObj = 0
  MaxDictKeys = 2
  MaxDictLen = 2
  MaxGroupList = 2
SPECIFICATION Spec
INVARIANT TypeOK
INVARIANT Inv_C13_WellFormed
INVARIANT Inv_C13_Observers
INVARIANT Inv_C13_Ctor
PROPERTY Act_C13_NoLoss
CHECK_DEADLOCK FALSE
