------------------------------- MODULE Parallel -------------------------------
(***************************************************************************)
(* Design model of the per-feature parallelism (n_jobs > 1):               *)
(*  - ContinuousDiscretizer.fit: pool.imap_unordered(fit_feature, features)*)
(*    -- results arrive in completion order and are merged by the feature  *)
(*    name each result carries;                                            *)
(*  - StringDiscretizer.fit and BaseDiscretizer transform:                 *)
(*    pool.apply_async per feature, results read back with get() in        *)
(*    submission order, again keyed by the returned feature name.          *)
(* The features are iterated in an arbitrary order (list(set(features))    *)
(* depends on the interpreter's hash seed).  TLC explores every iteration  *)
(* order and every interleaving of dispatch / completion / collection.     *)
(***************************************************************************)
EXTENDS Integers, Sequences, FiniteSets, TLC

CONSTANTS Features, NWorkers, Discipline     \* "imap_unordered" | "apply_async"

VARIABLES featOrder, queue, running, finished, outbox, collected, nextGet, phase
vars == <<featOrder, queue, running, finished, outbox, collected, nextGet, phase>>

Rng(s) == {s[i] : i \in DOMAIN s}
Perms(S) == {p \in [1..Cardinality(S) -> S] : Rng(p) = S}
FitOne(f) == <<"result", f>>           \* what fitting feature f alone yields
Workers == 1..NWorkers

Init == /\ featOrder \in Perms(Features)
        /\ queue = featOrder            \* tasks are submitted in iteration order
        /\ running = [w \in Workers |-> 0]
        /\ finished = {}                \* completed tasks (results held by the pool)
        /\ outbox = <<>>                \* completion order
        /\ collected = <<>>             \* what the parent process has received, in reception order
        /\ nextGet = 1
        /\ phase = "running"

Dispatch(w) == /\ phase = "running" /\ running[w] = 0 /\ queue # <<>>
               /\ running' = [running EXCEPT ![w] = Head(queue)]
               /\ queue' = Tail(queue)
               /\ UNCHANGED <<featOrder, finished, outbox, collected, nextGet, phase>>

Complete(w) == /\ phase = "running" /\ running[w] # 0
               /\ finished' = finished \cup {running[w]}
               /\ outbox' = Append(outbox, running[w])
               /\ running' = [running EXCEPT ![w] = 0]
               /\ UNCHANGED <<featOrder, queue, collected, nextGet, phase>>

(* the parent receives one result: <<feature name, result>> *)
Collect ==
  /\ phase = "running"
  /\ IF Discipline = "imap_unordered"
     THEN /\ Len(collected) < Len(outbox)                         \* next one in completion order
          /\ collected' = Append(collected, <<outbox[Len(collected) + 1], FitOne(outbox[Len(collected) + 1])>>)
          /\ UNCHANGED nextGet
     ELSE /\ nextGet <= Len(featOrder) /\ featOrder[nextGet] \in finished     \* result.get() in submission order
          /\ collected' = Append(collected, <<featOrder[nextGet], FitOne(featOrder[nextGet])>>)
          /\ nextGet' = nextGet + 1
  /\ UNCHANGED <<featOrder, queue, running, finished, outbox, phase>>

Finish == /\ phase = "running" /\ Len(collected) = Cardinality(Features)
          /\ phase' = "done"
          /\ UNCHANGED <<featOrder, queue, running, finished, outbox, collected, nextGet>>

Next == (\E w \in Workers : Dispatch(w) \/ Complete(w)) \/ Collect \/ Finish
Spec == Init /\ [][Next]_vars /\ WF_vars(Next)

(* the merged outcome: values_orders.update({feature: order for feature, order in results}) *)
Merged == [f \in {collected[i][1] : i \in DOMAIN collected} |->
             (CHOOSE i \in DOMAIN collected : collected[i][1] = f) ]
Inv_C10 == phase = "done" =>
             /\ {collected[i][1] : i \in DOMAIN collected} = Features
             /\ \A i \in DOMAIN collected : collected[i][2] = FitOne(collected[i][1])
Termination == <>(phase = "done")
=============================================================================
