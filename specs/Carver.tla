------------------------------- MODULE Carver -------------------------------
(***************************************************************************)
(* Design model of the carving of ONE feature (BaseCarver._carve_feature): *)
(* enumerate consecutive groupings, test them in descending order of the   *)
(* association measure, first viable wins (stage 1, non-missing rows);     *)
(* then, when dropna and missing values exist, the same over the           *)
(* placements of the missing-value modality (stage 2, all rows); otherwise *)
(* the feature is removed.  Exact ties in the measure are explored as      *)
(* nondeterministic choices; the viability verdict of a test is any value  *)
(* between the Strict and the Loose reading (DESIGN.md section 3), so the  *)
(* invariants hold for every implementation inside that envelope.          *)
(***************************************************************************)
EXTENDS CarverOps

CONSTANTS Kind,        \* "bin" | "cont"
          MaxK,        \* max number of base modalities
          MaxCell,     \* bin: max count per class in a cell ; cont: max rows per cell
          YVals,       \* cont: the y values
          MaxMods,     \* set of max_n_mod values
          Thresholds,  \* set of <<num, den>> for min_freq_mod
          Measures,    \* subset of {"cramerv", "tschuprowt", "kruskal"}
          DevFlags,    \* subset of BOOLEAN: with / without dev sample
          NanFlags,    \* subset of BOOLEAN: with / without a missing-value modality
          DropFlags    \* subset of BOOLEAN: dropna

VARIABLES tab, cfg, stage, untested, hist, g1, final
vars == <<tab, cfg, stage, untested, hist, g1, final>>

BinCells  == {<<a, b>> : a \in 0..MaxCell, b \in 0..MaxCell}
RECURSIVE SeqsLen(_, _)
SeqsLen(S, n) == IF n = 0 THEN {<<>>} ELSE {Append(s, x) : s \in SeqsLen(S, n - 1), x \in S}
SortedSeq(s) == \A i \in 1..(Len(s) - 1) : s[i] <= s[i + 1]
ContCells == UNION {{s \in SeqsLen(YVals, n) : SortedSeq(s)} : n \in 0..MaxCell}
Cells     == IF Kind = "bin" THEN BinCells ELSE ContCells
EmptyCell == IF Kind = "bin" THEN <<0, 0>> ELSE <<>>
NonEmpty(c) == c # EmptyCell

Posed(t, c) ==
  /\ (Kind = "bin" => \* both classes among the non-missing training rows (else chi2 is undefined)
        LET c1 == SumY(t, "tr", 1..t.k) n == Cnt(t, "tr", 1..t.k) IN c1 > 0 /\ c1 < n)
  /\ (Kind = "cont" => \* at least two distinct y among the non-missing training rows
        \E i, j \in 1..t.k : \E a \in CRng(t.tr[i]), b \in CRng(t.tr[j]) : a # b)

Cfgs == [measure : Measures, maxmod : MaxMods, mfm : Thresholds,
         dropna : DropFlags, hasdev : DevFlags, hasnan : NanFlags]

NoCells(k) == [i \in 1..k |-> EmptyCell]
Init == /\ cfg \in Cfgs
        /\ \E k \in 1..MaxK :
             \E tr \in {t \in [1..k -> Cells] : \A i \in 1..k : NonEmpty(t[i])},
                tn \in (IF cfg.hasnan THEN Cells \ {EmptyCell} ELSE {EmptyCell}),
                dv \in (IF cfg.hasdev THEN [1..k -> Cells] ELSE {NoCells(k)}),
                dn \in (IF cfg.hasdev /\ cfg.hasnan THEN Cells ELSE {EmptyCell}) :
               /\ tab = [kind |-> Kind, k |-> k, tr |-> tr, trnan |-> tn, dv |-> dv, dvnan |-> dn]
               /\ Posed(tab, cfg)
        /\ stage = "raw" /\ untested = {} /\ hist = <<>> /\ g1 = <<>> /\ final = <<>>

(* candidates carry their rank (number of candidates with a strictly smaller measure), computed *)
(* once per stage *)
Ranked(st, cands) ==
  LET m == [c \in cands |-> Measure(tab, cfg, st, c)]
  IN  {[g |-> c, rk |-> Cardinality({o \in cands : RatCmp(m[o], m[c]) < 0})] : c \in cands}

Verdicts(st, c) == {b \in BOOLEAN : (ViableStrict(tab, cfg, st, c) => b) /\ (b => ViableLoose(tab, cfg, st, c))}
Maximal(c)      == \A o \in untested : o.rk <= c.rk

Start ==
  /\ stage = "raw"
  /\ IF tab.k < 2 THEN stage' = "removed" /\ untested' = {}
                  ELSE stage' = "s1" /\ untested' = Ranked(1, Cands1(tab, cfg))
  /\ UNCHANGED <<tab, cfg, hist, g1, final>>

Test1(c) ==
  /\ stage = "s1" /\ c \in untested /\ Maximal(c)
  /\ \E v \in Verdicts(1, c.g) :
       /\ hist' = Append(hist, [g |-> c.g, st |-> 1, rk |-> c.rk, viable |-> v])
       /\ untested' = untested \ {c}
       /\ IF v THEN /\ g1' = c.g
                    /\ IF HasStage2(tab, cfg) THEN stage' = "s1done" /\ final' = final
                       ELSE /\ stage' = "fitted"
                            /\ final' = IF cfg.hasnan THEN c.g \o <<{0}>> ELSE c.g
               ELSE UNCHANGED <<g1, final, stage>>
  /\ UNCHANGED <<tab, cfg>>

Exhausted ==
  /\ stage \in {"s1", "s2"} /\ untested = {}
  /\ stage' = "removed"
  /\ UNCHANGED <<tab, cfg, untested, hist, g1, final>>

Start2 ==
  /\ stage = "s1done"
  /\ untested' = Ranked(2, Cands2(g1, cfg)) /\ stage' = "s2"
  /\ UNCHANGED <<tab, cfg, hist, g1, final>>

Test2(c) ==
  /\ stage = "s2" /\ c \in untested /\ Maximal(c)
  /\ \E v \in Verdicts(2, c.g) :
       /\ hist' = Append(hist, [g |-> c.g, st |-> 2, rk |-> c.rk, viable |-> v])
       /\ untested' = untested \ {c}
       /\ IF v THEN stage' = "fitted" /\ final' = c.g ELSE UNCHANGED <<stage, final>>
  /\ UNCHANGED <<tab, cfg, g1>>

Test1Any == \E c \in untested : Test1(c)
Test2Any == \E c \in untested : Test2(c)
Next == Start \/ Start2 \/ Exhausted \/ Test1Any \/ Test2Any
Spec == Init /\ [][Next]_vars

-----------------------------------------------------------------------------
Inv_C01_opt  == stage = "fitted"  => C01Opt(tab, cfg, final)
Inv_C01_drop == stage = "removed" => C01Drop(tab, cfg)
Inv_C02      == stage = "fitted"  => C02Bounds(tab, cfg, final)
(* C03: every fitted group is a contiguous run of the base order *)
Contiguous(S) == \A a, b \in S : \A x \in 1..tab.k : (a < x /\ x < b) => x \in S
Inv_C03      == stage = "fitted"  => \A i \in DOMAIN final : Contiguous(final[i] \ {0})
(* C16: the history lists tested groupings in non-increasing measure per stage, the last row *)
(* flagged viable is the fitted grouping, earlier rows of its stage are not viable           *)
Inv_C16_hist ==
  /\ \A i, j \in DOMAIN hist : (i < j /\ hist[i].st = hist[j].st) => hist[i].rk >= hist[j].rk
  /\ stage = "fitted" =>
        LET last == hist[Len(hist)] IN
          /\ last.viable
          /\ DropNan(last.g) = DropNan(final) \/ HasStage2(tab, cfg)
          /\ HasStage2(tab, cfg) => last.g = final
          /\ \A i \in 1..(Len(hist) - 1) : hist[i].st = last.st => ~hist[i].viable
=============================================================================
