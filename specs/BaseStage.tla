------------------------------ MODULE BaseStage ------------------------------
(***************************************************************************)
(* Design model of the base discretization of one feature.                 *)
(* Mode "quanti": ContinuousDiscretizer (quantile recursion, one action)   *)
(*   followed by the rare-bucket merge of QuantitativeDiscretizer with     *)
(*   min_freq/2, one action per merge.                                     *)
(* Mode "ordinal": the rare-modality merge of OrdinalDiscretizer, one      *)
(*   action per merge.                                                     *)
(* TLC enumerates every small sample x threshold and checks the C09 / C03  *)
(* statements in every state, and that the merge loop terminates.          *)
(***************************************************************************)
EXTENDS BaseOps

CONSTANTS Mode, Vals, MaxN, NanCounts, Thresholds, MaxK, MaxCount

VARIABLES df, lendf, mf, phase, bounds, gs
vars == <<df, lendf, mf, phase, bounds, gs>>

RECURSIVE SortedSeqs(_, _)
SortedSeqs(n, lo) == IF n = 0 THEN {<<>>}
                     ELSE UNION {{<<v>> \o s : s \in SortedSeqs(n - 1, v)} : v \in {x \in Vals : x >= lo}}
Samples == UNION {SortedSeqs(n, 0) : n \in 1..MaxN}

INFB == 1000000
Buckets(b, sample) ==
  LET sb == SetToSortSeq(b, LAMBDA x, y : x < y)  nb == Len(sb) IN
  [i \in 1..(nb + 1) |->
     LET lo == IF i = 1 THEN 0 - 1 ELSE sb[i - 1]  hi == IF i = nb + 1 THEN INFB ELSE sb[i]
         cnt == BucketCount(sample, lo, hi)
     IN [m |-> {i}, n |-> cnt, s |-> 0, u |-> cnt = 0]]

OrdinalStarts ==
  UNION {{[i \in 1..k |-> [m |-> {i}, n |-> c[i], s |-> t[i], u |-> c[i] = 0]] :
            c \in [1..k -> 0..MaxCount], t \in [1..k -> 0..MaxCount]} : k \in 2..MaxK}

Init ==
  /\ mf \in Thresholds
  /\ bounds = {}
  /\ IF Mode = "quanti"
     THEN /\ df \in Samples /\ \E nn \in NanCounts : lendf = Len(df) + nn
          /\ phase = "raw" /\ gs = <<>>
     ELSE /\ df = <<>> /\ phase = "merging"
          /\ gs \in {g \in OrdinalStarts : \A i \in DOMAIN g : g[i].s <= g[i].n}
          /\ \E nn \in NanCounts : lendf = nn + LET RECURSIVE sm(_)
                                                   sm(i) == IF i > Len(gs) THEN 0 ELSE gs[i].n + sm(i + 1) IN sm(1)
          /\ lendf > 0

HalfMf == <<mf[1], 2 * mf[2]>>
MMf == IF Mode = "quanti" THEN HalfMf ELSE mf

Cut == /\ phase = "raw"
       /\ bounds' = Quantiles(df, mf, lendf)
       /\ gs' = Buckets(Quantiles(df, mf, lendf), df)
       /\ phase' = "merging"
       /\ UNCHANGED <<df, lendf, mf>>

Merge == /\ phase = "merging" /\ NeedsMerge(gs, MMf, lendf)
         /\ gs' = MergeStep(gs, MMf, lendf)
         /\ UNCHANGED <<df, lendf, mf, phase, bounds>>

Done == /\ phase = "merging" /\ ~NeedsMerge(gs, MMf, lendf)
        /\ phase' = "done"
        /\ UNCHANGED <<df, lendf, mf, bounds, gs>>

Next == Cut \/ Merge \/ Done
Spec == Init /\ [][Next]_vars /\ WF_vars(Next)

-----------------------------------------------------------------------------
QRoundsDown == QOf(mf) * mf[1] < mf[2]                  \* known finding F10 region
Inv_C09_Q_Observed  == phase # "raw" /\ Mode = "quanti" => bounds \subseteq BRng(df)
Inv_C09_Q_FrequentStrict == phase # "raw" /\ Mode = "quanti" => Frequent(df, mf, lendf) \subseteq bounds
Inv_C09_Q_Frequent  == QRoundsDown \/ Inv_C09_Q_FrequentStrict
Inv_C09_Q_Mass == phase # "raw" /\ Mode = "quanti" =>
  LET sb == SetToSortSeq(bounds, LAMBDA x, y : x < y)  nb == Len(sb) IN
  \A i \in 1..(nb + 1) :
     LET lo == IF i = 1 THEN 0 - 1 ELSE sb[i - 1]  hi == IF i = nb + 1 THEN INFB ELSE sb[i] IN
     BucketFreeOfFrequent(df, mf, lendf, lo, hi) => BucketCount(df, lo, hi) * 2 * mf[2] <= 5 * mf[1] * lendf
(* every group is a run of consecutive base modalities, groups stay in order (C03) *)
Inv_C03_Runs == \A i \in DOMAIN gs :
  /\ \A a, b \in gs[i].m : \A x \in (a + 1)..(b - 1) : x \in gs[i].m
  /\ \A j \in DOMAIN gs : i < j => \A a \in gs[i].m, b \in gs[j].m : a < b
(* after the merge every bucket reaches the threshold unless a single bucket remains (C09) *)
Inv_C09_MinFreq == phase = "done" => (Len(gs) = 1 \/ \A i \in DOMAIN gs : ~Below(gs[i], MMf, lendf))
(* nothing is lost: the buckets always partition the rows *)
Inv_RowsKept == phase # "raw" =>
  LET RECURSIVE sm(_)
      sm(i) == IF i > Len(gs) THEN 0 ELSE gs[i].n + sm(i + 1)
  IN  (Mode = "quanti" => sm(1) = Len(df))
(* C11: the quantile search only sees the order of the values: re-encoding the values by a strictly *)
(* increasing map re-encodes the boundaries the same way                                          *)
MonoMaps == { [v \in Vals |-> 2 * v + 3], [v \in Vals |-> v * v], [v \in Vals |-> IF v <= 2 THEN v ELSE 10 * v + (v % 2)] }
Inv_C11_Quantiles == (phase # "raw" /\ Mode = "quanti") =>
  \A phi \in MonoMaps : Quantiles([i \in DOMAIN df |-> phi[df[i]]], mf, lendf) = {phi[b] : b \in bounds}
Termination == <>(phase = "done")
=============================================================================
