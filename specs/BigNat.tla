------------------------------- MODULE BigNat -------------------------------
(* Natural numbers of arbitrary size as little-endian sequences of base-10^4   *)
(* limbs (TLC integers are 32-bit; products of counts in the measure           *)
(* comparisons of Carver exceed that).                                         *)
EXTENDS Integers, Sequences
BNBase == 10000
RECURSIVE BNFromNat(_)
BNFromNat(n) == IF n < BNBase THEN <<n>> ELSE <<n % BNBase>> \o BNFromNat(n \div BNBase)
BNZero == <<0>>
RECURSIVE BNCarry(_,_,_)
BNCarry(s, i, c) == IF i > Len(s) THEN (IF c = 0 THEN <<>> ELSE BNFromNat(c))
                    ELSE LET v == s[i] + c IN <<v % BNBase>> \o BNCarry(s, i+1, v \div BNBase)
RECURSIVE BNSumTerms(_,_,_,_)
BNSumTerms(a,b,k,i) == IF i > Len(a) THEN 0
                       ELSE (IF k-i+1 >= 1 /\ k-i+1 <= Len(b) THEN a[i]*b[k-i+1] ELSE 0) + BNSumTerms(a,b,k,i+1)
BNMul(a,b) == BNCarry([k \in 1..(Len(a)+Len(b)-1) |-> BNSumTerms(a,b,k,1)], 1, 0)
BNLimb(a, i) == IF i <= Len(a) THEN a[i] ELSE 0
BNMaxLen(a, b) == IF Len(a) > Len(b) THEN Len(a) ELSE Len(b)
BNAdd(a,b) == BNCarry([k \in 1..BNMaxLen(a,b) |-> BNLimb(a,k) + BNLimb(b,k)], 1, 0)
RECURSIVE BNTrim(_)
BNTrim(a) == IF Len(a) > 1 /\ a[Len(a)] = 0 THEN BNTrim(SubSeq(a,1,Len(a)-1)) ELSE a
RECURSIVE BNCmpFrom(_,_,_)
BNCmpFrom(a,b,i) == IF i = 0 THEN 0 ELSE IF a[i] > b[i] THEN 1 ELSE IF a[i] < b[i] THEN -1 ELSE BNCmpFrom(a,b,i-1)
BNCmp(a0,b0) == LET a == BNTrim(a0) b == BNTrim(b0) IN
                IF Len(a) > Len(b) THEN 1 ELSE IF Len(a) < Len(b) THEN -1 ELSE BNCmpFrom(a,b,Len(a))
(* a - b for a >= b *)
RECURSIVE BNSubFrom(_,_,_,_)
BNSubFrom(a, b, i, borrow) ==
  IF i > Len(a) THEN <<>>
  ELSE LET v == a[i] - BNLimb(b, i) - borrow IN
       IF v < 0 THEN <<v + BNBase>> \o BNSubFrom(a, b, i+1, 1) ELSE <<v>> \o BNSubFrom(a, b, i+1, 0)
BNSub(a, b) == BNTrim(BNSubFrom(a, b, 1, 0))
BNMulNat(a, n) == BNMul(a, BNFromNat(n))
BNIsZero(a) == BNTrim(a) = <<0>>
(* non-negative rationals <<num, den>> with BigNat components *)
RatCmp(x, y) == BNCmp(BNMul(x[1], y[2]), BNMul(y[1], x[2]))
RatAdd(x, y) == <<BNAdd(BNMul(x[1], y[2]), BNMul(y[1], x[2])), BNMul(x[2], y[2])>>
RatMul(x, y) == <<BNMul(x[1], y[1]), BNMul(x[2], y[2])>>
RatOfNat(n, d) == <<BNFromNat(n), BNFromNat(d)>>
=============================================================================
