--------------------------- MODULE EstimatorTrace ---------------------------
(***************************************************************************)
(* Trace validation (code -> spec, and judge of spec -> code replays) of   *)
(* the life-cycle of discretizer / carver objects.  A case is a history of *)
(* public calls on up to 4 objects (original, reloaded, ...); after every  *)
(* call the driver logged the projected state of the object it was made on *)
(* and the call's observable result.  Each event is judged from the        *)
(* previously OBSERVED state of that object with EstimatorOps.tla.          *)
(*                                                                         *)
(* event fields (all events): ev, obj (1..4), outcome (0 ok, 1 Assertion-  *)
(* Error, 2 other exception), st (projected state after the call:          *)
(* [fitted, dtype, feats: Seq of [kind, order, content (pairs), dropna]])  *)
(***************************************************************************)
EXTENDS EstimatorOps, Json, IOUtils

Cases == JsonDeserialize(IOEnv.TRACE_FILE).cases

VARIABLES tid, l, objs, outs, fail, done
vars == <<tid, l, objs, outs, fail, done>>

C      == Cases[tid]
Events == C.events

PairsToFn(ps) == [k \in {ps[i][1] : i \in DOMAIN ps} |-> (CHOOSE p \in GLRng(ps) : p[1] = k)[2]]
FeatOf(f) == [kind |-> f.kind, vo |-> [order |-> f.order, content |-> PairsToFn(f.content)], dropna |-> f.dropna]
ObjOf(st) == [fitted |-> st.fitted, dtype |-> st.dtype, feats |-> [i \in DOMAIN st.feats |-> FeatOf(st.feats[i])]]
NoObj == [fitted |-> FALSE, dtype |-> "str", feats |-> <<>>]

Flag(cond, name) == IF cond THEN {} ELSE {name}

Init == /\ tid \in 1..Len(Cases) /\ l = 1
        /\ objs = [i \in 1..4 |-> NoObj]
        /\ outs = <<>>           \* outputs of earlier transform events, for cross-object comparison
        /\ fail = {} /\ done = FALSE

-----------------------------------------------------------------------------
WfClauses(o) ==
  UNION {IF GLWellFormed(o.feats[f].vo) THEN {} ELSE {"C08_values_orders_ill_formed"} \cup GLIllFormed(o.feats[f].vo)
         : f \in DOMAIN o.feats}

(* C03: groups of an ordered feature are runs of its natural order *)
PosIn(seq, v) == IF \E i \in DOMAIN seq : seq[i] = v THEN CHOOSE i \in DOMAIN seq : seq[i] = v ELSE 0
OrderClauses(e, O) ==
  UNION {
    LET ft == O.feats[f] IN
    IF ~GLWellFormed(ft.vo) THEN {}
    ELSE IF ft.kind = "quanti"
    THEN LET all == GLValues(ft.vo) \ {NAN} IN
         Flag(\A ldr \in GLLeaders(ft.vo) \ {NAN} :
                 LET G == GLMembers(ft.vo, ldr) \ {NAN} IN
                 /\ \A x \in G : x <= ldr                                  \* the leader is the upper bound
                 /\ \A a, b \in G : \A x \in all : (a < x /\ x < b) => x \in G,     \* an interval of the boundaries
              "C03_quanti_group_not_an_interval")
         \cup Flag(\A i, j \in DOMAIN ft.vo.order :
                     (i < j /\ ft.vo.order[i] # NAN /\ ft.vo.order[j] # NAN) => ft.vo.order[i] < ft.vo.order[j],
                   "C03_quanti_groups_not_increasing")
    ELSE IF e.ranking[f] = <<>> THEN {}
    ELSE LET rk == e.ranking[f] IN
         Flag(\A ldr \in GLLeaders(ft.vo) :
                 LET G == {PosIn(rk, v) : v \in GLMembers(ft.vo, ldr)} \ {0} IN
                 \A a, b \in G : \A x \in (a + 1)..(b - 1) : x \in G,
              "C03_ordinal_group_not_contiguous")
    : f \in DOMAIN O.feats}

RankPos(rk, c) == IF c[1] = NAN THEN 0 ELSE IF PosIn(rk, c[1]) > 0 THEN PosIn(rk, c[1]) ELSE PosIn(rk, c[2])
(* C03: with float labels transform is non-decreasing in a quantitative value / in an ordinal rank *)
MonotoneClauses(e, P) ==
  IF P.dtype # "float" THEN {}
  ELSE UNION {
    LET ft == P.feats[f]  cells == e.frame[f]  o == e.out[f] IN
    IF Len(o) # Len(cells) THEN {}
    ELSE IF ft.kind = "quanti"
    THEN Flag(\A i \in DOMAIN o : o[i][1] \in {0, 1}, "C03_float_output_is_not_a_rank")      \* a number (or a restored missing value)
         \cup
         Flag(\A i, j \in DOMAIN cells :
                 (cells[i] # NAN /\ cells[j] # NAN /\ cells[i] <= cells[j] /\ o[i][1] = 1 /\ o[j][1] = 1) => o[i][2] <= o[j][2],
              "C03_transform_not_monotone")
    ELSE IF e.ranking[f] = <<>> THEN {}
    ELSE LET rk == e.ranking[f] IN
         Flag(\A i \in DOMAIN o : o[i][1] \in {0, 1}, "C03_float_output_is_not_a_rank")
         \cup
         Flag(\A i, j \in DOMAIN cells :
                 \* a value is ranked through itself or through its string form (numeric codes)
                 LET a == RankPos(rk, cells[i])  b == RankPos(rk, cells[j]) IN
                 (a > 0 /\ b > 0 /\ a <= b /\ o[i][1] = 1 /\ o[j][1] = 1) => o[i][2] <= o[j][2],
              "C03_ordinal_transform_not_monotone")
    : f \in DOMAIN P.feats}

(* fit: outcome and coherence of the fitted object (C08) *)
JudgeFit(e, O) ==
  IF e.outcome = 2 THEN {"C08_internal_error"}
  ELSE IF e.outcome = 1 THEN {}
  ELSE Flag(O.fitted, "C08_not_fitted")
   \cup Flag(e.inputs_unchanged, "C07_inputs_modified")        \* copy=True: fit leaves X, y, X_dev, y_dev alone
   \cup WfClauses(O)
   \cup Flag(e.attrs_coherent, "C08_attributes_incoherent")
   \cup (IF WfClauses(O) # {} THEN {} ELSE
         \* every training value is covered by values_orders (through its string form for quali)
         Flag(\A f \in DOMAIN O.feats : \A i \in DOMAIN e.frame[f] :
                  LET c == e.frame[f][i]  ft == O.feats[f] IN
                  IF ft.kind = "quali"
                  THEN (IF c[1] = NAN THEN HasNan(ft.vo) ELSE c[1] \in GLValues(ft.vo) \/ c[2] \in GLValues(ft.vo))
                  ELSE (IF c = NAN THEN HasNan(ft.vo) ELSE FirstLeaderGE(ft.vo, c).t = "grp"),
              "C08_training_value_not_covered")
         \cup Flag(e.dropped_untouched, "C08_dropped_feature_modified")
         \* a quantitative group led by the missing-value marker holds nothing but missing values
         \cup Flag(\A f \in DOMAIN O.feats :
                      (O.feats[f].kind = "quanti" /\ NAN \in GLLeaders(O.feats[f].vo)) => GLMembers(O.feats[f].vo, NAN) = {NAN},
                   "C08_quantile_in_missing_value_group")
         \* C05 speaks of "a feature with a default group": a plain categorical feature owns one as soon as one of its
         \* training categories is rarer than min_freq (rows counted over the whole sample, categories through their string form)
         \cup Flag(\A f \in DOMAIN O.feats :
                      (e.plain_categ[f] /\ O.feats[f].kind = "quali") =>
                         LET cells == e.frame[f]
                             known == {i \in DOMAIN cells : cells[i][1] # NAN}
                             cnt(v) == Cardinality({i \in known : cells[i][2] = v})
                         IN  (\E i \in known : cnt(cells[i][2]) * e.mf[2] < e.mf[1] * Len(cells)) => HasDefault(O.feats[f].vo),
                   "C05_rare_categories_without_default_group")
         \cup OrderClauses(e, O))

(* transform on object P (observed before), logged frame / outputs *)
AllWf(P) == \A f \in DOMAIN P.feats : GLWellFormed(P.feats[f].vo)

JudgeTransform(e, P, O) ==
  Flag(O = P, "C07_transform_changed_state")
  \cup Flag(e.inputs_unchanged, "C07_inputs_modified")
  \cup (IF ~P.fitted \/ ~AllWf(P) THEN {}
        ELSE LET rej == Rejects(P, e.frame) IN
          IF e.outcome = 2 THEN {"C05_other_exception"}
          ELSE IF e.outcome = 1
            THEN Flag(rej, "C05_spurious_rejection")
                 \cup (IF rej THEN Flag(\E i \in DOMAIN e.named : e.named[i] \in RejectingFeatures(P, e.frame), "C05_feature_not_named") ELSE {})
          ELSE Flag(~rej, "C05_not_rejected")
           \cup Flag(e.shape_ok, "C07_index_or_columns_changed")
           \cup (IF rej THEN {} ELSE
                 UNION {
                   LET cells == e.frame[f]  o == e.out[f] IN
                     Flag(ColumnAgrees(P, f, cells, o), IF e.seen[f] THEN "C04_label" ELSE "C05_label")
                     \cup Flag(IntervalTextOK(P, f, cells, o), "C04_interval_label_text")
                     \cup Flag(\A i \in DOMAIN o : o[i][1] # 4, "C05_raw_value_leaked")
                   : f \in DOMAIN P.feats}
                 \cup MonotoneClauses(e, P)))

(* same frame transformed by another object earlier (event index e.same_as): equal results *)
JudgeSame(e) ==
  IF e.same_as = 0 THEN {}
  ELSE LET prev == outs[e.same_as] IN
       Flag(prev.outcome = e.outcome /\ (e.outcome # 0 \/ prev.out = e.out), e.same_clause)

(* update_discretizer on feature e.f *)
JudgeUpdate(e, P, O) ==
  IF ~P.fitted \/ ~AllWf(P) THEN {}
  ELSE LET ft == P.feats[e.f]
           valid == ValidEdit(ft.vo, e.mode, e.d, e.k)
       IN IF ~valid
          THEN \* outside the documented usage: only "AssertionError or a well-formed state" is required
               (IF e.outcome = 0 /\ WfClauses(O) # {} THEN {"Conf_invalid_edit_ill_formed"} ELSE {})
          ELSE IF e.outcome # 0 THEN {"C17_valid_edit_raised"}
          ELSE LET X  == UpdateVo(ft.vo, e.mode, e.d, e.k)
                   got == O.feats[e.f].vo
               IN  Flag(GLWellFormed(got), "C17_ill_formed")
                \cup (IF ~GLWellFormed(got) THEN {} ELSE
                      Flag(GLSameSets(got, X), "C17_effect")
                      \cup Flag(got = X \/ ~GLSameSets(got, X), "Conf_member_seq"))
                \cup Flag(\A g \in DOMAIN P.feats : g # e.f => O.feats[g] = P.feats[g], "C17_other_feature_changed")
                \cup Flag(O.feats[e.f].dropna = (ft.dropna \/ e.d = NAN), "C17_dropna_flag")

(* summary(): rows <<feature index, label, content (value codes)>> against the observed state *)
JudgeSummary(e, P) ==
  IF ~P.fitted \/ ~AllWf(P) \/ e.outcome # 0 THEN Flag(e.outcome = 0, "C16_summary_raised")
  ELSE LET rows == e.rows
           want == IF e.f = 0 THEN DOMAIN P.feats ELSE {e.f}
       IN  Flag({rows[i][1] : i \in DOMAIN rows} = want, "C16_summary_features")
      \cup Flag(e.history_of_feature_ok, "C16_history_of_feature_differs")      \* history(f) = the rows of history() about f
      \cup UNION {
           LET ft == P.feats[f]
               frows == {rows[i] : i \in {j \in DOMAIN rows : rows[j][1] = f}}
           IN  IF ft.kind = "quali"
               THEN \* (label, content) rows partition the known string values, label = transform's label
                    Flag(\A ldr \in GLLeaders(ft.vo) :
                            LET lab == OutOf(P.dtype, ft, ldr)
                                strs == {v \in GLMembers(ft.vo, ldr) : v \in GLRng(e.strvals[f]) /\ v # DEFAULT}
                            IN  strs = {} \/ lab = NanOut \/
                                \E r \in frows : r[2] = lab /\ GLRng(r[3]) \ {NAN} = strs, "C16_summary_quali_rows")
                    \cup Flag((HasNan(ft.vo) /\ ft.dropna) =>
                                 \E r \in frows : r[2] = OutOf(P.dtype, ft, NanGroup(ft.vo)) /\ NAN \in GLRng(r[3]),
                              "C16_summary_missing_values")
                    \cup Flag(\A r \in frows : \E ldr \in GLLeaders(ft.vo) :
                                  r[2] = OutOf(P.dtype, ft, ldr) \/ r[2] = LabelOf(P.dtype, ft, ldr),   \* (a restored missing output is listed under its label)
                              "C16_summary_unknown_label")
               ELSE \* one row per fitted group (a missing-value modality that is not dropped may be listed or not)
                    LET L == {LabelOf(P.dtype, ft, ldr) : ldr \in GLLeaders(ft.vo)}
                        R == {r[2] : r \in frows}
                        optional == IF ~ft.dropna /\ HasNan(ft.vo) /\ NanGroup(ft.vo) = NAN
                                    THEN {LabelOf(P.dtype, ft, NAN)} ELSE {}
                    IN Flag(/\ \A x \in R : x[1] = 3 \/ x \in L
                            /\ \A x \in L \ optional : x[1] = 3 \/ x \in R
                            /\ Cardinality({x \in R : x[1] = 3}) = Cardinality({x \in L : x[1] = 3}),
                            "C16_summary_quanti_rows")
                    \* missing values are shown in the group they were merged into
                    \cup Flag((HasNan(ft.vo) /\ ft.dropna) =>
                                 LET lab == OutOf(P.dtype, ft, NanGroup(ft.vo)) IN
                                 \E r \in frows : NAN \in GLRng(r[3]) /\ (IF lab[1] = 3 THEN r[2][1] = 3 ELSE r[2] = lab),
                              "C16_summary_missing_values")
           : f \in want}

(* a malformed call must be refused with AssertionError and leave the object unchanged (C19) *)
JudgeBadCall(e, P, O) ==
  Flag(e.outcome = 1, IF e.outcome = 0 THEN "C19_not_refused" ELSE "C19_wrong_exception")
  \cup (IF P.fitted THEN Flag(O = P, "C19_state_changed") \cup Flag(e.json_unchanged, "C19_json_changed") ELSE {})

(* JSON round trip: e.obj is the reloaded object, e.src the original (C06) *)
JudgeReload(e, S, O) ==
  Flag(e.json_ok, "C06_not_json_serialisable")
  \cup (IF ~e.json_ok THEN {} ELSE
        Flag(e.outcome = 0, "C06_load_failed")
        \cup (IF e.outcome # 0 THEN {} ELSE
              Flag(O = S, "Conf_reloaded_state_differs")
              \cup Flag(e.json_idempotent, "C06_json_not_idempotent")
              \cup Flag(e.summary_equal, "C06_summary_differs")
              \cup Flag(e.history_equal, "C16_history_differs_after_reload")))

Judge(e, P, O) ==
  CASE e.ev = "fit"       -> JudgeFit(e, O)
    [] e.ev = "transform" -> JudgeTransform(e, P, O) \cup JudgeSame(e)
    \* a frame lacking one of the columns given at fit (kept, dropped or never carved): whether it is refused is not
    \* judged here (C19 does, for kept features); a restored object must behave like the object it was dumped from
    [] e.ev = "transform_lacking" -> Flag(O = P, "C07_transform_changed_state") \cup JudgeSame(e)
    [] e.ev = "update"    -> JudgeUpdate(e, P, O)
    [] e.ev = "summary"   -> JudgeSummary(e, P)
    [] e.ev = "badcall"   -> JudgeBadCall(e, P, O)
    [] e.ev = "reload"    -> JudgeReload(e, objs[e.src], O)
    [] e.ev = "noop"      -> {}
    [] OTHER -> {"Drv_unknown_event"}

Step ==
  /\ ~done /\ l <= Len(Events)
  /\ LET e == Events[l]  P == objs[e.obj]  O == ObjOf(e.st) IN
       /\ fail' = fail \cup Judge(e, P, O)
       /\ objs' = [objs EXCEPT ![e.obj] = O]
       /\ outs' = Append(outs, IF e.ev \in {"transform", "transform_lacking"} THEN [outcome |-> e.outcome, out |-> e.out]
                               ELSE [outcome |-> -1, out |-> <<>>])
  /\ l' = l + 1
  /\ UNCHANGED <<tid, done>>

Finish ==
  /\ ~done /\ l > Len(Events)
  /\ done' = PrintT(<<"VERDICT", tid, fail>>)
  /\ UNCHANGED <<tid, l, objs, outs, fail>>

Next == Step \/ Finish
Spec == Init /\ [][Next]_vars
=============================================================================
