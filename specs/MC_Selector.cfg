CONSTANTS
  AVals = {0, 10}
  Feats = {1, 2, 3, 4}
  Levels = {1, 2, 3}
  NBests = {1, 2, 3, 4}
SPECIFICATION Spec
INVARIANT Inv_C14
INVARIANT Inv_C15_Top
PROPERTY Termination
CHECK_DEADLOCK FALSE
