------------------------------ MODULE SelectorOps ------------------------------
(***************************************************************************)
(* Feature selection of one feature type: rank by the association with the *)
(* target, walk down the ranking keeping a feature unless it is too        *)
(* associated with an already kept better-ranked one, cut at n_best.       *)
(* m[f] = measure of feature f (scaled integer) or UNDEF (-1);             *)
(* a[f][g] = inter-feature association (scaled integer, symmetric);        *)
(* thr = thresh_corr (scaled); nbest.                                      *)
(***************************************************************************)
EXTENDS Integers, Sequences, FiniteSets, TLC
UNDEF == 0 - 1
Rng(s) == {s[i] : i \in DOMAIN s}
NoDup(s) == \A i, j \in DOMAIN s : i # j => s[i] # s[j]
Defined(m, f) == m[f] # UNDEF

(* property C14 on a returned list `sel` (features of one type, in returned order) *)
C14Distinct(sel, feats)  == NoDup(sel) /\ Rng(sel) \subseteq feats
C14Ordered(m, sel, tol)  == \A i \in 1..(Len(sel) - 1) : m[sel[i]] + tol >= m[sel[i + 1]]
C14AtMost(sel, nbest)    == Len(sel) <= nbest
C14Uncorrelated(a, sel, thr, tol) == \A i, j \in DOMAIN sel : i # j => a[sel[i]][sel[j]] <= thr + tol
C14AllDefined(m, sel)    == \A i \in DOMAIN sel : Defined(m, sel[i])
(* every omitted feature has one of the three reasons *)
(* an association value of exactly ExactOne (identical columns) is compared without tolerance *)
ExactOne == 1000000
Above(x, thr, tol) == IF x = ExactOne THEN x > thr ELSE x + tol > thr
C14Reason(m, a, sel, feats, thr, nbest, tol, f) ==
  \/ ~Defined(m, f)
  \/ \E g \in Rng(sel) : m[g] + tol >= m[f] /\ Above(a[f][g], thr, tol)
  \/ Cardinality({g \in Rng(sel) : m[g] + tol >= m[f]}) >= nbest
C14Omitted(m, a, sel, feats, thr, nbest, tol) ==
  \A f \in feats \ Rng(sel) : C14Reason(m, a, sel, feats, thr, nbest, tol, f)
=============================================================================
