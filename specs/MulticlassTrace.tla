--------------------------- MODULE MulticlassTrace ---------------------------
(***************************************************************************)
(* Trace validation of one MulticlassCarver fit against k independent      *)
(* BinaryCarver fits (same parameters, fresh values_orders) on the class   *)
(* indicators.  case: labels (character codes per class), nfeat,           *)
(* mccols (<<feature, class>> of the columns MulticlassCarver created),    *)
(* binkept (per class: features its BinaryCarver keeps), mcout / binout    *)
(* (per <<feature, class>>: output label codes per row, shared interning), *)
(* raw_unchanged, outcome / binoutcome.                                    *)
(***************************************************************************)
EXTENDS MulticlassOps, TLC, Json, IOUtils
Cases == JsonDeserialize(IOEnv.TRACE_FILE).cases
VARIABLES tid, done
vars == <<tid, done>>
C == Cases[tid]
Flag(cond, name) == IF cond THEN {} ELSE {name}
Rng(s) == {s[i] : i \in DOMAIN s}
BinKept == [c \in DOMAIN C.binkept |-> Rng(C.binkept[c])]
ColOut(list, col) == IF \E i \in DOMAIN list : list[i][1] = col
                     THEN (CHOOSE i \in DOMAIN list : list[i][1] = col) ELSE 0
Clauses ==
  IF C.outcome # 0 \/ \E c \in DOMAIN C.binoutcome : C.binoutcome[c] # 0
  THEN \* both sides must fail or succeed together
       Flag((C.outcome # 0) = (\E c \in DOMAIN C.labels \ {FirstClass(C.labels)} : C.binoutcome[c] # 0),
            "C12_outcome_differs")
  ELSE LET want == ExpectedCols(C.labels, BinKept)
           got == Rng(C.mccols)
       IN  Flag(got = want, "C12_columns_differ")
      \cup Flag(\A col \in got : col[2] # FirstClass(C.labels), "C12_first_class_not_skipped")
      \cup Flag(\A col \in got \cap want :
                   LET i == ColOut(C.mcout, col)  j == ColOut(C.binout, col) IN
                   i # 0 /\ j # 0 /\ C.mcout[i][2] = C.binout[j][2], "C12_output_differs")
      \cup Flag(C.raw_unchanged, "C12_raw_columns_modified")
      \* the output still holds the raw columns: transforming it again rebuilds the same f_ci columns
      \cup Flag(C.retransform_same, "C12_transform_of_its_own_output_differs")
Init == tid \in 1..Len(Cases) /\ done = FALSE
Judge == /\ ~done /\ done' = PrintT(<<"VERDICT", tid, Clauses>>) /\ UNCHANGED tid
Spec == Init /\ [][Judge]_vars
=============================================================================
