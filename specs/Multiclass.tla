------------------------------ MODULE Multiclass ------------------------------
(***************************************************************************)
(* Design model of MulticlassCarver.fit: the classes are sorted as         *)
(* strings, the first one is skipped, and for every other class one        *)
(* BinaryCarver is fitted on the indicator of that class, on a fresh copy  *)
(* of the raw values_orders; its kept features f become the columns f_c.   *)
(* The outcome of a BinaryCarver fit (which features it keeps) is          *)
(* nondeterministic here -- Carver.tla describes it.                       *)
(***************************************************************************)
EXTENDS MulticlassOps, TLC
CONSTANTS LabelSets,     \* set of sequences of class labels (MC_Multiclass.tla)
          Features
VARIABLES labels, todo, binkept, cols, rawvo
vars == <<labels, todo, binkept, cols, rawvo>>

Init == /\ labels \in LabelSets
        /\ todo = DOMAIN labels \ {FirstClass(labels)}
        /\ binkept = [c \in DOMAIN labels |-> {}]
        /\ cols = {}
        /\ rawvo = "raw"             \* the user's values_orders; a per-class carver works on a copy

(* classes are processed in string order *)
NextClass == CHOOSE c \in todo : \A d \in todo : d # c => LexLt(labels[c], labels[d])
FitClass(kept) ==
  /\ todo # {}
  /\ LET c == NextClass IN
       /\ binkept' = [binkept EXCEPT ![c] = kept]
       /\ cols' = cols \cup {<<f, c>> : f \in kept}
       /\ todo' = todo \ {c}
  /\ UNCHANGED <<labels, rawvo>>
Next == \E kept \in SUBSET Features : FitClass(kept)
Spec == Init /\ [][Next]_vars

Inv_C12 == todo = {} => cols = ExpectedCols(labels, binkept)
Inv_C12_FirstSkipped == \A col \in cols : col[2] # FirstClass(labels)
Inv_C12_RawUntouched == rawvo = "raw"
=============================================================================
