-------------------------- MODULE GroupedListTrace --------------------------
(***************************************************************************)
(* Trace validation (code -> spec) for GroupedList: every case is a        *)
(* history of public calls executed on the real class; after each call the *)
(* driver logged the projected state, the observers' answers and the       *)
(* projection of a copy taken earlier ("shadow").  Each step is judged     *)
(* from the previously OBSERVED state with the operators of GL.tla, so one *)
(* deviation does not cascade.  Verdicts are total: the set `fail` of      *)
(* violated clause names is printed once per case.                         *)
(***************************************************************************)
EXTENDS GL, TLC, Json, IOUtils

U       == 1..8
StrSet  == 1..4
NanObj  == 0
NoneCode == 8
ObsU    == U \cup {NanObj}

Cases == JsonDeserialize(IOEnv.TRACE_FILE).cases

VARIABLES tid, l, st, shadow, fail, done
vars == <<tid, l, st, shadow, fail, done>>

Events == Cases[tid].events

PairsToFn(ps) == [k \in {ps[i][1] : i \in DOMAIN ps} |-> (CHOOSE p \in GLRng(ps) : p[1] = k)[2]]
ObsState(e)   == [order |-> e.order, content |-> PairsToFn(e.content)]
TypeOKState(s) == /\ GLRng(s.order) \subseteq U /\ DOMAIN s.content \subseteq U
                  /\ \A k \in DOMAIN s.content : GLRng(s.content[k]) \subseteq U

Valid(P, e) ==
  CASE e.op = "fromlist"   -> ValidFromList(e.a[1])
    [] e.op = "fromdict"   -> ValidFromDict(e.a[1], PairsToFn(e.a[2]))
    [] e.op = "copy"       -> TRUE
    [] e.op = "group"      -> ValidGroup(P, e.a[1], e.a[2])
    [] e.op = "group_list" -> ValidGroupList(P, e.a[1], e.a[2])
    [] e.op = "append"     -> ValidAppend(P, e.a[1])
    [] e.op = "update"     -> ValidUpdate(P, e.a[1], PairsToFn(e.a[2]))
    [] e.op = "remove"     -> ValidRemove(P, e.a[1])
    [] e.op = "pop"        -> ValidPop(P, e.a[1])
    [] e.op = "sort"       -> NoneCode \notin GLLeaders(P)        \* None cannot be compared with numbers
    [] e.op = "sort_by"    -> ValidSortBy(P, e.a[1])
    [] e.op = "replace_group_leader" -> ValidReplaceLeader(P, e.a[1], e.a[2])
    [] OTHER -> FALSE

Expected(P, e) ==
  CASE e.op = "fromlist"   -> GLFromList(e.a[1])
    [] e.op = "fromdict"   -> GLFromDict(e.a[1], PairsToFn(e.a[2]))
    [] e.op = "copy"       -> P
    [] e.op = "group"      -> GLGroup(P, e.a[1], e.a[2])
    [] e.op = "group_list" -> GLGroupList(P, e.a[1], e.a[2])
    [] e.op = "append"     -> GLAppend(P, e.a[1])
    [] e.op = "update"     -> GLUpdate(P, e.a[1], PairsToFn(e.a[2]))
    [] e.op = "remove"     -> GLRemove(P, e.a[1])
    [] e.op = "pop"        -> GLPop(P, e.a[1])
    [] e.op = "sort"       -> GLSort(P, StrSet)
    [] e.op = "sort_by"    -> GLSortBy(P, e.a[1])
    [] e.op = "replace_group_leader" -> GLReplaceLeader(P, e.a[1], e.a[2])

(* observers, as logged: get / grp are sequences of <<arg, result>> over ObsU *)
(* contains / get_group compare values "NaN-insensitively": the float nan object matches any missing value *)
(* held by the list, i.e. None (code 8) in this universe; get() is a plain dict lookup                     *)
Alias(v) == IF v = NanObj THEN NoneCode ELSE v
ObsClauses(O, e) ==
  LET getf == PairsToFn(e.get)  grpf == PairsToFn(e.grp)  has == GLRng(e.has)  vals == e.vals
  IN  (IF \A v \in ObsU : getf[v] = GLGet(O, v) THEN {} ELSE {"C13_obs_get"})
 \cup (IF \A v \in ObsU : (GLHolders(O, Alias(v)) = {} /\ grpf[v] = v) \/ grpf[v] \in GLHolders(O, Alias(v))
          THEN {} ELSE {"C13_obs_get_group"})
 \cup (IF has = {v \in ObsU : GLContains(O, Alias(v))} THEN {} ELSE {"C13_obs_contains"})
 \cup (IF GLRng(vals) = GLValues(O) /\ Len(vals) = Cardinality(GLValues(O)) THEN {} ELSE {"C13_obs_values"})
 \* get_repr() is outside the statement of C13: judged as conformance (reported, never an alarm)
 \cup (IF "rep" \notin DOMAIN e \/ e.rep = GLRepr(O) THEN {} ELSE {"Conf_obs_repr"})

Judge(P, e) ==
  LET O == ObsState(e) IN
  IF ~TypeOKState(O) THEN {"C13_foreign_value"}
  ELSE IF ~Valid(P, e) THEN {"Drv_invalid_op"}
  ELSE IF e.exc = 1 THEN {"C13_raised"}
  ELSE LET X == Expected(P, e) IN
         (IF GLIllFormed(O) # {} THEN {"C13_wf"} \cup GLIllFormed(O) ELSE {})
    \cup (IF GLIllFormed(O) # {} THEN {}
          ELSE (IF GLSameSets(O, X) THEN {} ELSE {"C13_effect"})
          \cup (IF O = X \/ ~GLSameSets(O, X) THEN {} ELSE {"Conf_member_seq"})
          \cup (IF GLValues(P) \subseteq GLValues(O) \/ e.op \in {"remove", "pop", "fromlist", "fromdict"}
                  THEN {} ELSE {"C13_noloss"})
          \cup ObsClauses(O, e))
    \cup (IF e.op \in {"copy", "sort", "sort_by"} THEN (IF e.fresh = 1 THEN {} ELSE {"C13_copy_aliasing"})
          ELSE IF ObsState(e.shadow) = shadow THEN {} ELSE {"C13_copy_aliasing"})

Stops(f) == f \cap {"C13_foreign_value", "Drv_invalid_op", "C13_wf", "C13_raised"} # {}

Init == /\ tid \in 1..Len(Cases) /\ l = 1 /\ st = GLEmpty /\ shadow = GLEmpty /\ fail = {} /\ done = FALSE

Step ==
  /\ ~done /\ l <= Len(Events)
  /\ LET e == Events[l]  f == Judge(st, e) IN
       /\ fail' = fail \cup f
       /\ st' = IF Stops(f) THEN st ELSE ObsState(e)
       /\ shadow' = IF e.op \in {"copy", "sort", "sort_by"} THEN st ELSE shadow     \* these return a new object: the old one is watched
       /\ l' = l + 1
       \* stop judging a case once its state is no longer a GroupedList value
       /\ done' = IF Stops(f) THEN PrintT(<<"VERDICT", tid, fail \cup f>>) ELSE FALSE
  /\ UNCHANGED tid

Finish ==
  /\ ~done /\ l > Len(Events)
  /\ done' = PrintT(<<"VERDICT", tid, fail>>)
  /\ UNCHANGED <<tid, l, st, shadow, fail>>

Next == Step \/ Finish
Spec == Init /\ [][Next]_vars
=============================================================================
