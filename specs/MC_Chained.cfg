CONSTANTS
  Trees <- TreeSet
  MaxCount = 3
  Thresholds <- Thr
  NanCounts = {0, 2}
SPECIFICATION Spec
INVARIANT Inv_C18_Along
INVARIANT Inv_C18_RowsKept
INVARIANT Inv_C18_Final
PROPERTY Termination
CHECK_DEADLOCK FALSE
