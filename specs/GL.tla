--------------------------------- MODULE GL ---------------------------------
(***************************************************************************)
(* Pure-operator reference model of AutoCarver's GroupedList: an ordered   *)
(* list of group leaders plus  content : leader -> sequence of members.    *)
(* A GroupedList value is a record  [order |-> Seq(V), content |-> [L->Seq(V)]].*)
(* Values are integer codes (TLC cannot compare strings with numbers); the *)
(* set StrSet says which codes stand for Python str objects, and code order *)
(* inside a class (str / non-str) is the Python sort order of the values.  *)
(* This module is a library: GroupedList.tla turns it into a state machine *)
(* (C13), Estimator.tla / Carver.tla reuse it for values_orders.           *)
(***************************************************************************)
EXTENDS Integers, Sequences, FiniteSets, SequencesExt, FiniteSetsExt

GLRng(s)        == {s[i] : i \in DOMAIN s}
GLNoDup(s)      == \A i, j \in DOMAIN s : i # j => s[i] # s[j]
GLRemoveVal(s, v) == SelectSeq(s, LAMBDA x : x # v)
GLIndexOf(s, v) == CHOOSE i \in DOMAIN s : s[i] = v

GLEmpty         == [order |-> <<>>, content |-> <<>>]
GLLeaders(st)   == GLRng(st.order)
GLMembers(st, l) == GLRng(st.content[l])
GLValues(st)    == UNION {GLRng(st.content[l]) : l \in DOMAIN st.content}

(* ---- the consistency statement of property C13 ---- *)
GLUniqueLeaders(st)  == GLNoDup(st.order)
GLKeysAreLeaders(st) == DOMAIN st.content = GLLeaders(st)
GLDisjoint(st)       == \A a, b \in DOMAIN st.content :
                           a # b => GLRng(st.content[a]) \cap GLRng(st.content[b]) = {}
GLNoDupMembers(st)   == \A a \in DOMAIN st.content : GLNoDup(st.content[a])
GLLeaderInOwn(st)    == \A l \in DOMAIN st.content : l \in GLRng(st.content[l])
GLWellFormed(st)     == /\ GLUniqueLeaders(st) /\ GLKeysAreLeaders(st) /\ GLDisjoint(st)
                        /\ GLNoDupMembers(st) /\ GLLeaderInOwn(st)
(* names of the violated clauses, for total verdicts *)
GLIllFormed(st) == (IF GLUniqueLeaders(st) THEN {} ELSE {"unique_leaders"})
              \cup (IF GLKeysAreLeaders(st) THEN {} ELSE {"keys_are_leaders"})
              \cup (IF GLDisjoint(st) THEN {} ELSE {"disjoint"})
              \cup (IF GLNoDupMembers(st) THEN {} ELSE {"nodup_members"})
              \cup (IF GLKeysAreLeaders(st) /\ ~GLLeaderInOwn(st) THEN {"leader_in_own"} ELSE {})

(* ---- observers ---- *)
GLGet(st, k)      == IF k \in DOMAIN st.content THEN st.content[k] ELSE <<>>
GLHolders(st, v)  == {l \in DOMAIN st.content : v \in GLRng(st.content[l])}
GLGetGroup(st, v) == IF GLHolders(st, v) # {} THEN CHOOSE l \in GLHolders(st, v) : TRUE ELSE v
GLContains(st, v) == v \in GLValues(st)
(* same partition, same leader order, member order ignored *)
GLSameSets(a, b)  == /\ a.order = b.order
                     /\ DOMAIN a.content = DOMAIN b.content
                     /\ \A l \in DOMAIN a.content : GLRng(a.content[l]) = GLRng(b.content[l])

(* ---- constructors ---- *)
GLFromList(l) == [order |-> l, content |-> [v \in GLRng(l) |-> <<v>>]]
ValidFromList(l) == GLNoDup(l)

(* GroupedList({k: members}) with keys in dict order *)
GLDictOthers(keys, d, k) == UNION {GLRng(d[k2]) : k2 \in GLRng(keys) \ {k}}
GLFromDict(keys, d) ==
  LET kept == SelectSeq(keys, LAMBDA k : k \notin GLDictOthers(keys, d, k))
  IN  [order   |-> kept,
       content |-> [k \in GLRng(kept) |-> IF k \in GLRng(d[k]) THEN d[k] ELSE d[k] \o <<k>>]]
ValidFromDict(keys, d) ==
  /\ GLNoDup(keys) /\ DOMAIN d = GLRng(keys)
  /\ \A k \in DOMAIN d : GLNoDup(d[k])
  /\ \A a, b \in DOMAIN d : a # b => GLRng(d[a]) \cap GLRng(d[b]) = {}
  /\ \A k \in DOMAIN d : k \in GLDictOthers(keys, d, k) => d[k] = <<>>

(* ---- mutators ---- *)
GLGroup(st, d, k) ==
  IF d = k THEN st
  ELSE [order   |-> GLRemoveVal(st.order, d),
        content |-> [l \in DOMAIN st.content \ {d} |->
                        IF l = k THEN st.content[d] \o st.content[k] ELSE st.content[l]]]
ValidGroup(st, d, k) == d \in GLLeaders(st) /\ k \in GLLeaders(st)

RECURSIVE GLGroupList(_, _, _)
GLGroupList(st, ds, k) == IF ds = <<>> THEN st ELSE GLGroupList(GLGroup(st, Head(ds), k), Tail(ds), k)
ValidGroupList(st, ds, k) == GLNoDup(ds) /\ GLRng(ds) \subseteq GLLeaders(st) /\ k \in GLLeaders(st)

GLAppend(st, v) == [order |-> Append(st.order, v),
                    content |-> [l \in DOMAIN st.content \cup {v} |-> IF l = v THEN <<v>> ELSE st.content[l]]]
ValidAppend(st, v) == v \notin GLValues(st)

(* update({key: members, ...}) with keys in dict order *)
GLUpdate(st, keys, d) ==
  [order   |-> st.order \o SelectSeq(keys, LAMBDA k : k \notin GLLeaders(st)),
   content |-> [l \in DOMAIN st.content \cup GLRng(keys) |-> IF l \in GLRng(keys) THEN d[l] ELSE st.content[l]]]
ValidUpdate(st, keys, d) ==
  /\ GLNoDup(keys) /\ DOMAIN d = GLRng(keys)
  /\ \A k \in DOMAIN d : GLNoDup(d[k]) /\ k \in GLRng(d[k])
  /\ \A a, b \in DOMAIN d : a # b => GLRng(d[a]) \cap GLRng(d[b]) = {}
  /\ \A k \in DOMAIN d :                              \* extends an existing group or adds a fresh one
        LET old == IF k \in DOMAIN st.content THEN GLRng(st.content[k]) ELSE {}
        IN  /\ old \subseteq GLRng(d[k])
            /\ (GLRng(d[k]) \ old) \cap GLValues(st) = {}

GLRemove(st, v) == [order |-> GLRemoveVal(st.order, v),
                    content |-> [l \in DOMAIN st.content \ {v} |-> st.content[l]]]
ValidRemove(st, v) == v \in GLLeaders(st)
GLPop(st, i)    == GLRemove(st, st.order[i])
ValidPop(st, i) == i \in DOMAIN st.order

(* sort(): str leaders first, then the others, each class in natural order (= code order) *)
GLSortedLeaders(st, StrSet) ==
  LET strs == GLLeaders(st) \cap StrSet
      nums == GLLeaders(st) \ StrSet
      srt(S) == SortSeq(SetToSeq(S), LAMBDA a, b : a < b)
  IN  srt(strs) \o srt(nums)
GLSort(st, StrSet) == [order |-> GLSortedLeaders(st, StrSet), content |-> st.content]
GLSortBy(st, p)    == [order |-> p, content |-> st.content]
ValidSortBy(st, p) == GLNoDup(p) /\ GLRng(p) = GLLeaders(st)

GLReplaceLeader(st, l, m) ==
  IF l = m THEN st
  ELSE [order   |-> [i \in DOMAIN st.order |-> IF st.order[i] = l THEN m ELSE st.order[i]],
        content |-> [x \in (DOMAIN st.content \ {l}) \cup {m} |-> IF x = m THEN st.content[l] ELSE st.content[x]]]
ValidReplaceLeader(st, l, m) == l \in GLLeaders(st) /\ m \in GLMembers(st, l)

(* position of the group holding v in the leader order (0 if none) *)
GLGroupPos(st, v) == IF GLHolders(st, v) = {} THEN 0 ELSE GLIndexOf(st.order, GLGetGroup(st, v))
(* get_repr(): one short text per non-empty group, in list order; the text is built from the group's  *)
(* first member (the oldest) and its last or second member.  Structure only: <<kind, a, b>> where kind *)
(* 1 = the lone value itself, 2 = "b and a" (two members), 3 = "last to first" (three or more).       *)
GLReprOf(c) == IF Len(c) = 1 THEN <<1, c[1], c[1]>>
               ELSE IF Len(c) = 2 THEN <<2, c[2], c[1]>> ELSE <<3, c[Len(c)], c[1]>>
GLRepr(st)  == LET nonempty == SelectSeq(st.order, LAMBDA l : l \in DOMAIN st.content /\ Len(st.content[l]) > 0)
               IN  [i \in DOMAIN nonempty |-> GLReprOf(st.content[nonempty[i]])]
=============================================================================
