CONSTANTS
  Kind = "quali"
  Vals = {1, 2, 3}
  Dtypes = {"str", "float"}
  MaxEdits = 1
SPECIFICATION Spec
INVARIANT Inv_C08_WellFormed
INVARIANT Inv_C04_Injective
INVARIANT Inv_C05_LabelOrReject
INVARIANT Inv_C03_Monotone
INVARIANT Inv_C17_Edit
PROPERTY Act_C07_C19
CHECK_DEADLOCK FALSE
