----------------------------- MODULE GroupedList -----------------------------
(***************************************************************************)
(* State machine of one GroupedList object under every history of valid    *)
(* public operations (property C13).  One action per public method; every  *)
(* action is enabled exactly on the valid calls of that method.            *)
(* lastOp records the operation, its arguments and the source state, so    *)
(* that every state of a TLC dump is a self-contained implementation test  *)
(* (build `from`, perform `op(args)`, compare with <<order, content, obs>>).*)
(***************************************************************************)
EXTENDS GL, TLC

CONSTANTS U,          \* universe of value codes (integers)
          StrSet,     \* the codes that stand for Python str values
          NanObj,     \* a code outside U: the float nan object, used as observer argument only
          MaxDictKeys, MaxDictLen, MaxGroupList

VARIABLES order, content, obs, lastOp
vars == <<order, content, obs, lastOp>>

St == [order |-> order, content |-> content]

ObsU == U \cup {NanObj}
ObsOf(st) == [get      |-> [v \in ObsU |-> GLGet(st, v)],
              group    |-> [v \in ObsU |-> GLGetGroup(st, v)],
              contains |-> {v \in ObsU : GLContains(st, v)},
              values   |-> GLValues(st)]

Perms(S)      == {p \in [1..Cardinality(S) -> S] : GLRng(p) = S}
SeqsNoDup(S)  == UNION {Perms(T) : T \in SUBSET S}
SeqsUpTo(S,n) == {s \in SeqsNoDup(S) : Len(s) <= n}

Become(st, op, args) ==
  /\ order' = st.order
  /\ content' = st.content
  /\ obs' = ObsOf(st)
  /\ lastOp' = [op |-> op, args |-> args, from |-> St]

Init == /\ order = <<>> /\ content = <<>>
        /\ obs = ObsOf(GLEmpty)
        /\ lastOp = [op |-> "init", args |-> <<>>, from |-> GLEmpty]

Fresh == lastOp.op = "init"

NewFromList(l) == Fresh /\ l # <<>> /\ ValidFromList(l) /\ Become(GLFromList(l), "fromlist", <<l>>)

DictArgs == {kd \in UNION {{<<keys, d>> : d \in [GLRng(keys) -> SeqsUpTo(U, MaxDictLen)]} :
                             keys \in SeqsUpTo(U, MaxDictKeys) \ {<<>>}} :
               ValidFromDict(kd[1], kd[2])}
NewFromDict(kd) == Fresh /\ Become(GLFromDict(kd[1], kd[2]), "fromdict", kd)

CopyOf == ~Fresh /\ Become(St, "copy", <<>>)

Group(d, k)      == ~Fresh /\ ValidGroup(St, d, k) /\ Become(GLGroup(St, d, k), "group", <<d, k>>)
GroupList(ds, k) == ~Fresh /\ Len(ds) >= 2 /\ ValidGroupList(St, ds, k)
                    /\ Become(GLGroupList(St, ds, k), "group_list", <<ds, k>>)
DoAppend(v)      == ~Fresh /\ ValidAppend(St, v) /\ Become(GLAppend(St, v), "append", <<v>>)
Update(keys, d)  == ~Fresh /\ ValidUpdate(St, keys, d) /\ Become(GLUpdate(St, keys, d), "update", <<keys, d>>)
DoRemove(v)      == ~Fresh /\ ValidRemove(St, v) /\ Become(GLRemove(St, v), "remove", <<v>>)
Pop(i)           == ~Fresh /\ ValidPop(St, i) /\ Become(GLPop(St, i), "pop", <<i>>)
Sort             == ~Fresh /\ order # <<>> /\ Become(GLSort(St, StrSet), "sort", <<>>)
SortBy(p)        == ~Fresh /\ ValidSortBy(St, p) /\ Become(GLSortBy(St, p), "sort_by", <<p>>)      \* (p = order allowed: still a new object)
ReplaceLeader(l, m) == ~Fresh /\ ValidReplaceLeader(St, l, m)
                       /\ Become(GLReplaceLeader(St, l, m), "replace_group_leader", <<l, m>>)

UpdateArgs == {kd \in UNION {{<<keys, d>> : d \in [GLRng(keys) -> SeqsUpTo(U, MaxDictLen) \ {<<>>}]} :
                               keys \in SeqsUpTo(U, 1) \ {<<>>}} : TRUE}

Next ==
  \/ \E l \in SeqsNoDup(U) : NewFromList(l)
  \/ \E kd \in DictArgs : NewFromDict(kd)
  \/ CopyOf
  \/ \E d, k \in U : Group(d, k)
  \/ \E ds \in SeqsUpTo(U, MaxGroupList), k \in U : GroupList(ds, k)
  \/ \E v \in U : DoAppend(v) \/ DoRemove(v)
  \/ \E kd \in UpdateArgs : Update(kd[1], kd[2])
  \/ \E i \in 1..Cardinality(U) : Pop(i)
  \/ Sort
  \/ \E p \in SeqsNoDup(U) : SortBy(p)
  \/ \E l, m \in U : ReplaceLeader(l, m)

Spec == Init /\ [][Next]_vars

-----------------------------------------------------------------------------
(* Property C13 *)
TypeOK  == order \in Seq(U) /\ DOMAIN content \subseteq U /\ \A l \in DOMAIN content : content[l] \in Seq(U)
Inv_C13_WellFormed == GLWellFormed(St)
Inv_C13_Observers  ==
  /\ \A l \in GLLeaders(St) : obs.get[l] = content[l]
  /\ \A v \in ObsU : (v \notin GLValues(St)) => obs.get[v] = <<>> /\ obs.group[v] = v /\ v \notin obs.contains
  /\ \A v \in GLValues(St) : v \in obs.contains /\ v \in GLRng(content[obs.group[v]])
  /\ obs.values = UNION {GLRng(content[l]) : l \in GLLeaders(St)}
Act_C13_NoLoss == [][ \/ GLValues(St) \subseteq GLValues(St')
                      \/ lastOp'.op \in {"remove", "pop"} ]_vars
(* constructors build exactly what they were given *)
Inv_C13_Ctor == (lastOp.op = "fromlist" => order = lastOp.args[1] /\ GLValues(St) = GLRng(order))
=============================================================================
