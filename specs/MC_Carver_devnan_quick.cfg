CONSTANTS
  Kind = "bin"
  MaxK = 2
  MaxCell = 1
  YVals = {0}
  MaxMods = {2, 3}
  Thresholds <- ThrC
  Measures = {"cramerv"}
  DevFlags = {TRUE}
  NanFlags = {TRUE}
  DropFlags = {TRUE}
SPECIFICATION Spec
INVARIANT Inv_C01_opt
INVARIANT Inv_C01_drop
INVARIANT Inv_C02
INVARIANT Inv_C03
INVARIANT Inv_C16_hist
CHECK_DEADLOCK FALSE
