CONSTANTS
  Mode = "quanti"
  Vals = {1, 2, 3, 4, 5}
  MaxN = 6
  NanCounts = {0, 1, 3}
  Thresholds <- ThrAll
  MaxK = 2
  MaxCount = 1
SPECIFICATION Spec
INVARIANT Inv_C09_Q_Observed
INVARIANT Inv_C09_Q_Frequent
INVARIANT Inv_C09_Q_Mass
INVARIANT Inv_C03_Runs
INVARIANT Inv_C09_MinFreq
INVARIANT Inv_RowsKept
INVARIANT Inv_C11_Quantiles
PROPERTY Termination
CHECK_DEADLOCK FALSE
