---------------------------- MODULE EstimatorOps ----------------------------
(***************************************************************************)
(* Pure operators describing a fitted discretizer / carver object and its  *)
(* public calls (transform, update_discretizer, summary, JSON round trip). *)
(* Shared by the design model Estimator.tla and the judge EstimatorTrace.  *)
(*                                                                         *)
(* An object is   [fitted |-> BOOLEAN, dtype |-> "str"|"float",            *)
(*                 feats |-> Seq of [kind, vo, dropna]]                     *)
(*   kind  = "quali" | "quanti";  vo = a GroupedList value (GL.tla)         *)
(* Values are integer codes, per feature:                                  *)
(*   NAN (0)      the missing-value sentinel "__NAN__" / a missing cell    *)
(*   DEFAULT (-1) the default modality "__OTHER__"                          *)
(*   quantitative: order-isomorphic ranks of the real numbers, INF = +inf  *)
(*   qualitative: one code per value (Python equality); a cell carries     *)
(*                <<identity code, code of its string form>>                *)
(* Output labels are pairs <<type, v>>:  <<0,0>> missing output,           *)
(*   <<1,n>> the number n, <<2,c>> a string equal to value c of the        *)
(*   feature, <<3,i>> some other string (interned id i), <<4,_>> anything  *)
(*   else (a raw value passed through).                                    *)
(***************************************************************************)
EXTENDS GL, TLC

NAN     == 0
DEFAULT == -1
INF     == 1000000
NanOut  == <<0, 0>>

NonNanOrder(vo) == SelectSeq(vo.order, LAMBDA v : v # NAN)
HasNan(vo)      == NAN \in GLValues(vo)
HasDefault(vo)  == DEFAULT \in GLValues(vo)
NanGroup(vo)    == GLGetGroup(vo, NAN)
MinOf(S)        == CHOOSE x \in S : \A y \in S : x <= y

(* where a cell lands: [t |-> "grp", g |-> leader] | [t |-> "rej"] | [t |-> "leak"] *)
Grp(l) == [t |-> "grp", g |-> l]
Rej    == [t |-> "rej", g |-> 0]
Leak   == [t |-> "leak", g |-> 0]

QualiLands(vo, c) ==            \* c = <<identity, string form>>
  IF c[1] = NAN THEN (IF HasNan(vo) THEN Grp(NanGroup(vo)) ELSE Rej)
  ELSE IF c[1] \in GLValues(vo) THEN Grp(GLGetGroup(vo, c[1]))
  ELSE IF HasDefault(vo) THEN Grp(GLGetGroup(vo, DEFAULT))
  ELSE Rej
(* second reading of "numeric-looking values are matched through their string form" *)
QualiLandsAlt(vo, c) ==
  IF c[1] # NAN /\ c[2] \in GLValues(vo) THEN Grp(GLGetGroup(vo, c[2])) ELSE QualiLands(vo, c)

FirstLeaderGE(vo, x) ==
  LET idx == {i \in DOMAIN vo.order : vo.order[i] # NAN /\ vo.order[i] >= x}
  IN  IF idx = {} THEN Leak ELSE Grp(vo.order[MinOf(idx)])
QuantiLands(vo, x) ==
  IF x = NAN THEN (IF HasNan(vo) THEN Grp(NanGroup(vo)) ELSE Rej)
  ELSE FirstLeaderGE(vo, x)

Lands(ft, c) == IF ft.kind = "quali" THEN QualiLands(ft.vo, c) ELSE QuantiLands(ft.vo, c)

(* ---- labels ---- *)
(* 'float' labels are the group's rank in the fitted order (the missing-value modality, when it is *)
(* a group of its own, is normally the last one)                                                  *)
RankOf(vo, leader) == GLIndexOf(vo.order, leader) - 1
LabelOf(dtype, ft, leader) ==
  IF dtype = "float" THEN <<1, RankOf(ft.vo, leader)>>
  ELSE IF ft.kind = "quali" \/ leader = NAN THEN <<2, leader>>
  ELSE <<3, GLIndexOf(ft.vo.order, leader)>>     \* an interval string: identity = position
(* the output for a cell that lands in group `leader`; missing values are restored when *)
(* the feature does not drop them                                                        *)
OutOf(dtype, ft, leader) ==
  IF ~ft.dropna /\ HasNan(ft.vo) /\ leader = NanGroup(ft.vo) THEN NanOut
  ELSE LabelOf(dtype, ft, leader)
LabelSet(dtype, ft) == {OutOf(dtype, ft, l) : l \in GLLeaders(ft.vo)}

(* ---- a whole frame: frame[f] = sequence of cells of feature f ---- *)
Rejects(obj, frame) == \E f \in DOMAIN obj.feats : \E i \in DOMAIN frame[f] : Lands(obj.feats[f], frame[f][i]).t = "rej"
RejectingFeatures(obj, frame) ==
  {f \in DOMAIN obj.feats : \E i \in DOMAIN frame[f] : Lands(obj.feats[f], frame[f][i]).t = "rej"}

(* expected output of one cell ([t |-> "rej"/"leak"] cells have none) *)
ExpectedCell(obj, f, c) ==
  LET ft == obj.feats[f]  w == Lands(ft, c)
  IN  IF w.t = "grp" THEN OutOf(obj.dtype, ft, w.g) ELSE <<4, 0>>
ExpectedCellAlt(obj, f, c) ==
  LET ft == obj.feats[f]  w == IF ft.kind = "quali" THEN QualiLandsAlt(ft.vo, c) ELSE Lands(ft, c)
  IN  IF w.t = "grp" THEN OutOf(obj.dtype, ft, w.g) ELSE <<4, 0>>

(* observed vs expected, interval-string labels compared up to a bijection *)
IsStrLabel(x) == x[1] = 3
CellAgrees(obs, exp, alt) == IF IsStrLabel(exp) THEN IsStrLabel(obs)
                             ELSE obs = exp \/ obs = alt
ColumnAgrees(obj, f, cells, outs) ==
  LET exp == [i \in DOMAIN cells |-> ExpectedCell(obj, f, cells[i])]
      alt == [i \in DOMAIN cells |-> ExpectedCellAlt(obj, f, cells[i])]
  IN  /\ Len(outs) = Len(cells)
      /\ \A i \in DOMAIN cells : CellAgrees(outs[i], exp[i], alt[i])
      /\ \A i, j \in DOMAIN cells :
            (IsStrLabel(exp[i]) /\ IsStrLabel(exp[j])) => ((exp[i] = exp[j]) <=> (outs[i] = outs[j]))
      \* an interval label never collides with another label of the column
      /\ \A i, j \in DOMAIN cells :
            (IsStrLabel(exp[i]) /\ ~IsStrLabel(exp[j])) => outs[i] # outs[j]

(* the text of an interval label names the bounds of the group the row lands in: observed labels of *)
(* quantitative features are <<3, id, lo, hi>> with lo / hi the codes of the boundaries that print    *)
(* like the two sides of the text (0-INF / INF for an open side, -2 no such boundary, -3 ambiguous)   *)
PrevBound(vo, leader) ==
  LET idx  == GLIndexOf(vo.order, leader)
      prev == {i \in 1..(idx - 1) : vo.order[i] # NAN}
  IN  IF prev = {} THEN 0 - INF ELSE vo.order[CHOOSE i \in prev : \A j \in prev : j <= i]
IntervalTextOK(obj, f, cells, outs) ==
  LET ft == obj.feats[f] IN
  \A i \in DOMAIN cells :
     LET w == Lands(ft, cells[i]) IN
     (i \in DOMAIN outs /\ w.t = "grp" /\ ft.kind = "quanti" /\ Len(outs[i]) = 4 /\ IsStrLabel(OutOf(obj.dtype, ft, w.g)))
        => (outs[i][3] = PrevBound(ft.vo, w.g) /\ outs[i][4] = w.g)

(* ---- well-formedness of an object (C08) ---- *)
FeatWellFormed(ft) == GLWellFormed(ft.vo)

(* ---- update_discretizer(feature, mode, discarded, kept)  (C17) ---- *)
(* the reference effect on values_orders[f], built from GL.tla *)
UpdGroup(vo, d, k) ==
  LET v1 == IF GLContains(vo, k) THEN vo ELSE GLAppend(vo, k)
      v2 == IF GLContains(v1, d) THEN v1 ELSE GLAppend(v1, d)
  IN  GLGroup(v2, d, k)
UpdReplace(vo, d, k) ==
  LET v1 == IF GLContains(vo, k) THEN vo ELSE GLAppend(vo, k)
      v2 == GLGroup(v1, k, d)
  IN  GLReplaceLeader(v2, d, k)
UpdateVo(vo, mode, d, k) ==
  IF GLGetGroup(vo, d) = k THEN vo                       \* already grouped: a warning, no change
  ELSE IF mode = "group" THEN UpdGroup(vo, d, k) ELSE UpdReplace(vo, d, k)
(* both arguments are group leaders or brand-new values (DESIGN.md C17 "valid edits") *)
LeaderOrNew(vo, v) == v \in GLLeaders(vo) \/ ~GLContains(vo, v)
ValidEdit(vo, mode, d, k) ==
  /\ k # NAN /\ d # k
  /\ LeaderOrNew(vo, d) /\ LeaderOrNew(vo, k)
  /\ (mode = "replace" => d \in GLLeaders(vo) /\ ~GLContains(vo, k) /\ d # INF)   \* the unbounded interval stays
=============================================================================
