------------------------------ MODULE ChainedOps ------------------------------
(***************************************************************************)
(* ChainedDiscretizer: rare values are merged into their parent in a user  *)
(* hierarchy, level by level.  Nodes are 1..M; par[v] is the parent of v   *)
(* (0 = none), lvl[v] its level (0 = the values of the first level);       *)
(* cnt[v] the training rows whose value is literally v; n all rows         *)
(* (missing ones included); mf = <<num, den>>.                              *)
(***************************************************************************)
EXTENDS Integers, Sequences, FiniteSets, TLC

Nodes(par) == DOMAIN par
Rare(c, mf, n) == c * mf[2] < mf[1] * n

RECURSIVE Pooled(_, _, _, _, _)
(* rows carried by node v once its rare children have been merged into it *)
Pooled(par, cnt, mf, n, v) ==
  LET kids == {c \in Nodes(par) : par[c] = v}
      RECURSIVE sm(_)
      sm(S) == IF S = {} THEN 0
               ELSE LET c == CHOOSE x \in S : TRUE
                        pc == Pooled(par, cnt, mf, n, c)
                    IN  (IF Rare(pc, mf, n) THEN pc ELSE 0) + sm(S \ {c})
  IN  cnt[v] + sm(kids)

RECURSIVE FinalLeader(_, _, _, _, _)
FinalLeader(par, cnt, mf, n, v) ==
  IF par[v] = 0 \/ ~Rare(Pooled(par, cnt, mf, n, v), mf, n) THEN v
  ELSE FinalLeader(par, cnt, mf, n, par[v])

RECURSIVE Ancestors(_, _)
Ancestors(par, v) == IF par[v] = 0 THEN {} ELSE {par[v]} \cup Ancestors(par, par[v])
=============================================================================
