---------------------------- MODULE ChainedTrace ----------------------------
(***************************************************************************)
(* Trace validation (code -> spec) of one ChainedDiscretizer fit on one    *)
(* feature.  case: par / lvl / cnt per hierarchy node (1..M), n (all rows),*)
(* mf, outcome (0 ok, 1 AssertionError, 2 other), policy ("raise"|"drop"), *)
(* nunknown (distinct training values outside the hierarchy), nanrows,     *)
(* leader (observed group leader per node; 0 = node absent from            *)
(* values_orders, -1 = the missing-value group), unkleader (observed       *)
(* leaders of the unknown values), wf (values_orders well-formed, checked  *)
(* by the projection), out (rows <<node or 0 for missing/unknown, output>> *)
(* with output = node id, -1 = missing output, -2 = anything else).        *)
(***************************************************************************)
EXTENDS ChainedOps, Json, IOUtils
Cases == JsonDeserialize(IOEnv.TRACE_FILE).cases
VARIABLES tid, done
vars == <<tid, done>>
C == Cases[tid]
Flag(cond, name) == IF cond THEN {} ELSE {name}
M == Len(C.par)
Rng(s) == {s[i] : i \in DOMAIN s}

GroupRows(a) == LET RECURSIVE sm(_)
                    sm(i) == IF i > M THEN 0 ELSE (IF C.leader[i] = a THEN C.cnt[i] ELSE 0) + sm(i + 1)
                IN sm(1)

Clauses ==
  IF C.outcome = 2 THEN {"C18_internal_error"}
  ELSE IF C.removed THEN
     \* a feature is left out (with a warning, before its values are looked at) only when none of its
     \* values reaches min_freq
     Flag(\A v \in 1..M : Rare(C.cnt[v], C.mf, C.n), "C18_feature_dropped_although_a_value_is_frequent")
  ELSE IF C.nunknown > 0 /\ C.policy = "raise" THEN Flag(C.outcome = 1, "C18_unknown_value_not_refused")
  ELSE IF C.outcome = 1 THEN {"C18_spurious_rejection"}
  ELSE
     Flag(C.wf, "C18_values_orders_ill_formed")
  \cup Flag(\A v \in 1..M : C.leader[v] # 0, "C18_hierarchy_value_lost")
  \cup Flag(\A v \in 1..M : C.leader[v] = v \/ C.leader[v] \in Ancestors(C.par, v) \/ C.leader[v] = 0,
            "C18_merged_outside_hierarchy")
  \* a value of the first level stays its own modality iff it is frequent enough
  \cup Flag(\A v \in 1..M : (C.lvl[v] = 0 /\ C.par[v] # 0 /\ C.cnt[v] > 0) =>
                ((C.leader[v] = v) <=> ~Rare(C.cnt[v], C.mf, C.n)), "C18_own_modality_iff_frequent")
  \* an ancestor group that is itself rare is merged further up (only roots may stay rare)
  \cup Flag(\A a \in {C.leader[v] : v \in 1..M} \ {0, 0 - 1} :
                (C.par[a] # 0 /\ \E v \in 1..M : v # a /\ C.leader[v] = a) => ~Rare(GroupRows(a), C.mf, C.n),
            "C18_rare_ancestor_not_merged_up")
  \* ... and only then: a value is never merged beyond the first ancestor group that is frequent enough
  \cup Flag(\A v \in 1..M : LET fl == FinalLeader(C.par, C.cnt, C.mf, C.n, v) IN
                ~(C.leader[v] # fl /\ C.leader[v] \in Ancestors(C.par, fl)),
            "C18_frequent_group_merged_further_up")
  \cup Flag(\A v \in 1..M : C.leader[v] = FinalLeader(C.par, C.cnt, C.mf, C.n, v), "Conf_leaders")
  \cup (IF C.nunknown > 0 THEN Flag(\A i \in DOMAIN C.unkleader : C.unkleader[i] = 0 - 1, "C18_unknown_not_with_missing") ELSE {})
  \* transform outputs each value's group leader; missing / dropped unknown values stay missing
  \cup Flag(\A i \in DOMAIN C.out :
               LET r == C.out[i] IN
               IF r[1] = 0 THEN r[2] = 0 - 1 ELSE r[2] = C.leader[r[1]], "C18_transform_not_leader")

Init == tid \in 1..Len(Cases) /\ done = FALSE
Judge == /\ ~done /\ done' = PrintT(<<"VERDICT", tid, Clauses>>) /\ UNCHANGED tid
Spec == Init /\ [][Judge]_vars
=============================================================================
