---------------------------- MODULE SelectorTrace ----------------------------
(***************************************************************************)
(* Trace validation of one real select(X, y) call.  case.groups: one entry *)
(* per feature type [feats (ids), sel (returned ids of that type, in       *)
(* returned order), nbest, thr (scaled thresh_corr)]; mref[f] = measure    *)
(* recomputed independently by the harness (scaled by 1e6, -1 = undefined  *)
(* or below a threshold), mcode[f] = the library's own value (scaled, -1   *)
(* if it reports none), a[f][g] = |association| between features (scaled); *)
(* must (ids that have to be returned: copies of / monotone in the target),*)
(* inputs_unchanged, outcome.                                              *)
(***************************************************************************)
EXTENDS SelectorOps, Json, IOUtils
Cases == JsonDeserialize(IOEnv.TRACE_FILE).cases
VARIABLES tid, done
vars == <<tid, done>>
C == Cases[tid]
Flag(cond, name) == IF cond THEN {} ELSE {name}
Tol == 3
Abs(x) == IF x < 0 THEN 0 - x ELSE x
(* a group carries one measure table per association measure that was evaluated (g.mrefs, g.mcodes); *)
(* the list is ranked by the last one (the library sorts by the reversed list of measures)           *)
GroupClauses(g) ==
  LET feats == Rng(g.feats)  sel == g.sel  nm == Len(g.mrefs)  prim == g.mrefs[nm] IN
     Flag(C14Distinct(sel, feats), "C14_not_distinct_inputs")
  \cup Flag(\A i \in DOMAIN sel : \E k \in 1..nm : Defined(g.mrefs[k], sel[i]), "C14_undefined_feature_returned")
  \cup Flag(C14Ordered(prim, sel, Tol), "C14_not_in_decreasing_association")
  \cup Flag(Len(sel) <= g.nbest * nm, "C14_more_than_n_best")
  \cup Flag(C14Uncorrelated(C.a, sel, g.thr, Tol) \/ nm > 1, "C14_returned_features_too_associated")
  \* (with colsample < 1 the features are first screened in random halves: omissions are not determined by the data)
  \* several measures evaluated together: a feature for which one of them is undefined is out for all of them (the library
  \* drops the rows of its association table that hold a missing value)
  \cup Flag(g.sampled \/ \A k \in 1..nm :
                LET mk == [f \in DOMAIN g.mrefs[k] |-> IF \E j \in 1..nm : g.mrefs[j][f] = UNDEF THEN UNDEF ELSE g.mrefs[k][f]]
                IN  C14Omitted(mk, C.a, sel, feats, g.thr, g.nbest, Tol), "C14_omitted_without_reason")
  \cup Flag(\A k \in 1..nm : \A f \in feats :
               g.mcodes[k][f] = UNDEF \/ g.mrefs[k][f] = UNDEF
               \/ Abs(g.mcodes[k][f] - g.mrefs[k][f]) <= Tol + g.mrefs[k][f] \div 100000,
            "C14_measure_differs_from_recomputation")
Clauses ==
  IF C.outcome # 0 THEN {"C14_select_raised"}
  ELSE UNION {GroupClauses(C.groups[i]) : i \in DOMAIN C.groups}
       \cup Flag(C.inputs_unchanged, "C14_inputs_modified")
       \cup Flag(Rng(C.must) \subseteq UNION {Rng(C.groups[i].sel) : i \in DOMAIN C.groups}, "C15_copy_of_target_not_selected")
(* known finding F08: the default RegressionSelector measure (correlation distance 1 - r) is treated as *)
(* undefined when it is exactly 0: every unexplained omission / missing copy of the target is such a   *)
(* feature (recomputed distance ~ 0, no value reported by the library)                                 *)
ZeroDistIn(g, f) == g.mrefs[1][f] # UNDEF /\ g.mrefs[1][f] <= Tol /\ g.mcodes[1][f] = UNDEF
ZeroDist(f) == \E i \in DOMAIN C.groups : f \in Rng(C.groups[i].feats) /\ ZeroDistIn(C.groups[i], f)
ExplainedByZeroDistance ==
  /\ C.outcome = 0
  /\ \A i \in DOMAIN C.groups :
       LET g == C.groups[i] IN
       \A f \in Rng(g.feats) \ Rng(g.sel) :
          (\A k \in 1..Len(g.mrefs) : C14Reason(g.mrefs[k], C.a, g.sel, Rng(g.feats), g.thr, g.nbest, Tol, f)) \/ ZeroDist(f)
  /\ \A f \in Rng(C.must) : (f \in UNION {Rng(C.groups[i].sel) : i \in DOMAIN C.groups}) \/ ZeroDist(f)
Init == tid \in 1..Len(Cases) /\ done = FALSE
Judge == /\ ~done /\ done' = PrintT(<<"VERDICT", tid, Clauses, [zero_distance |-> ExplainedByZeroDistance]>>) /\ UNCHANGED tid
Spec == Init /\ [][Judge]_vars
=============================================================================
