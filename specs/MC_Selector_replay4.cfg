CONSTANTS
  AVals = {0, 10}
  Feats = {1, 2, 3, 4}
  Levels = {1, 2}
  NBests = {1, 2, 3}
SPECIFICATION Spec
INVARIANT Inv_C14
INVARIANT Inv_C15_Top
CHECK_DEADLOCK FALSE
