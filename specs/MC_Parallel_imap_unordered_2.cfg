CONSTANTS
  Features = {1, 2, 3}
  NWorkers = 2
  Discipline = "imap_unordered"
SPECIFICATION Spec
INVARIANT Inv_C10
PROPERTY Termination
CHECK_DEADLOCK FALSE
