------------------------------ MODULE CarverOps ------------------------------
(***************************************************************************)
(* Pure operators of the carving search (BaseCarver._get_best_combination  *)
(* and friends), shared by the design model Carver.tla and by the trace    *)
(* judge CarverTrace.tla.                                                  *)
(*                                                                         *)
(* tab  = [kind |-> "bin" | "cont", k |-> K,                               *)
(*         tr |-> Seq(cell) (1..K), trnan |-> cell, dv, dvnan likewise]    *)
(*   cell ("bin")  = <<n0, n1>>      rows with y = 0 / y = 1                *)
(*   cell ("cont") = sequence of the y values (small naturals) of its rows *)
(*   bucket 0 is the missing-value modality, buckets 1..K the base         *)
(*   modalities in the feature's order.                                    *)
(* cfg  = [measure |-> "cramerv"|"tschuprowt"|"kruskal", maxmod |-> 2..,   *)
(*         mfm |-> <<num, den>>, dropna, hasdev, hasnan |-> BOOLEAN]        *)
(* A grouping is a sequence of sets of bucket ids, in feature order; a     *)
(* missing-value group standing alone is the last element.                 *)
(***************************************************************************)
EXTENDS Integers, Sequences, FiniteSets, SequencesExt, BigNat, TLC

CRng(s) == {s[i] : i \in DOMAIN s}
Abs(x) == IF x < 0 THEN -x ELSE x
Max2(x, y) == IF x > y THEN x ELSE y

Cell(tab, smp, i) ==
  IF i = 0 THEN (IF smp = "tr" THEN tab.trnan ELSE tab.dvnan)
           ELSE (IF smp = "tr" THEN tab.tr[i] ELSE tab.dv[i])

RECURSIVE SeqSum(_, _)
SeqSum(s, i) == IF i > Len(s) THEN 0 ELSE s[i] + SeqSum(s, i + 1)

CellCnt(tab, c) == IF tab.kind = "bin" THEN c[1] + c[2] ELSE Len(c)
CellSum(tab, c) == IF tab.kind = "bin" THEN c[2] ELSE SeqSum(c, 1)

RECURSIVE CntFrom(_, _, _, _)
CntFrom(tab, smp, S, i) == IF i > tab.k THEN 0
                           ELSE (IF i \in S THEN CellCnt(tab, Cell(tab, smp, i)) ELSE 0) + CntFrom(tab, smp, S, i + 1)
RECURSIVE SumFrom(_, _, _, _)
SumFrom(tab, smp, S, i) == IF i > tab.k THEN 0
                           ELSE (IF i \in S THEN CellSum(tab, Cell(tab, smp, i)) ELSE 0) + SumFrom(tab, smp, S, i + 1)
Cnt(tab, smp, S)  == CntFrom(tab, smp, S, 0)      \* rows of sample smp falling in the buckets S
SumY(tab, smp, S) == SumFrom(tab, smp, S, 0)      \* sum of y over those rows

StageIds(tab, stage) == IF stage = 1 THEN 1..tab.k ELSE 0..tab.k
Total(tab, smp, stage) == Cnt(tab, smp, StageIds(tab, stage))

(* ---- rates, compared exactly by cross-multiplication ---- *)
RateDefined(tab, smp, S) == Cnt(tab, smp, S) > 0
RateEq(tab, smp, A, B) == SumY(tab, smp, A) * Cnt(tab, smp, B) = SumY(tab, smp, B) * Cnt(tab, smp, A)
RateLt(tab, smp, A, B) == SumY(tab, smp, A) * Cnt(tab, smp, B) < SumY(tab, smp, B) * Cnt(tab, smp, A)

FreqOK(tab, cfg, smp, stage, S) == Cnt(tab, smp, S) * cfg.mfm[2] >= cfg.mfm[1] * Total(tab, smp, stage)

NanAlone(G) == Len(G) >= 1 /\ G[Len(G)] = {0}

(* adjacent (feature order) groups have distinct rates; `strictnan` says whether a missing-value
   group standing alone counts as adjacent to the last group *)
AdjDistinct(tab, smp, G, strictnan) ==
  \A i \in 1..(Len(G) - 1) :
     \/ (~strictnan /\ i = Len(G) - 1 /\ NanAlone(G))
     \/ ~RateDefined(tab, smp, G[i]) \/ ~RateDefined(tab, smp, G[i + 1])
     \/ ~RateEq(tab, smp, G[i], G[i + 1])

AllFreqOK(tab, cfg, smp, stage, G) == \A i \in DOMAIN G : FreqOK(tab, cfg, smp, stage, G[i])

ViableTrain(tab, cfg, stage, G, strictnan) ==
  AllFreqOK(tab, cfg, "tr", stage, G) /\ AdjDistinct(tab, "tr", G, strictnan)

NoStrictInversion(tab, G) ==
  \A i, j \in DOMAIN G : ~(RateLt(tab, "tr", G[i], G[j]) /\ RateLt(tab, "dv", G[j], G[i]))
PairwiseDistinct(tab, smp, G) ==
  \A i, j \in DOMAIN G : i # j => ~RateEq(tab, smp, G[i], G[j])
SameOrder(tab, G) ==
  \A i, j \in DOMAIN G : RateLt(tab, "tr", G[i], G[j]) <=> RateLt(tab, "dv", G[i], G[j])

(* two-sided viability (DESIGN.md section 3): Strict => what the code tests => Loose *)
ViableLoose(tab, cfg, stage, G) ==
  /\ ViableTrain(tab, cfg, stage, G, FALSE)
  /\ cfg.hasdev => /\ AllFreqOK(tab, cfg, "dv", stage, G)
                   /\ AdjDistinct(tab, "dv", G, FALSE)
                   /\ NoStrictInversion(tab, G)
ViableStrict(tab, cfg, stage, G) ==
  /\ ViableTrain(tab, cfg, stage, G, TRUE)
  /\ cfg.hasdev => /\ AllFreqOK(tab, cfg, "dv", stage, G)
                   /\ PairwiseDistinct(tab, "tr", G) /\ PairwiseDistinct(tab, "dv", G)
                   /\ SameOrder(tab, G)

-----------------------------------------------------------------------------
(* candidate sets *)
SortedCuts(cuts, n) == SetToSortSeq(cuts \cup {0, n}, LAMBDA a, b : a < b)
(* merge the items (a sequence of sets) along a set of cut positions *)
MergeBy(items, cuts) ==
  LET b == SortedCuts(cuts, Len(items))
  IN  [j \in 1..(Len(b) - 1) |-> UNION {items[i] : i \in (b[j] + 1)..b[j + 1]}]
CutSets(n, maxmod) == {s \in SUBSET (1..(n - 1)) : Cardinality(s) >= 1 /\ Cardinality(s) <= maxmod - 1}
Singletons(k) == [i \in 1..k |-> {i}]

Cands1(tab, cfg) == {MergeBy(Singletons(tab.k), c) : c \in CutSets(tab.k, cfg.maxmod)}

AddNan(H, n) == [i \in DOMAIN H |-> IF i = n THEN H[i] \cup {0} ELSE H[i]]
PlacementsOf(H, maxmod) == {AddNan(H, n) : n \in DOMAIN H}
                           \cup (IF Len(H) < maxmod THEN {H \o <<{0}>>} ELSE {})
Cands2(G, cfg) == UNION {PlacementsOf(MergeBy(G, c), cfg.maxmod) : c \in CutSets(Len(G), cfg.maxmod)}

DropNan(G) == SelectSeq([i \in DOMAIN G |-> G[i] \ {0}], LAMBDA s : s # {})

-----------------------------------------------------------------------------
(* association measures, as exact rationals <<num, den>> of BigNats *)
BNN(n) == BNFromNat(n)

RECURSIVE SumSqOverR(_, _, _, _)
SumSqOverR(tab, G, i, acc) ==       \* sum_i a_i^2 / r_i over the groups of G (train sample)
  IF i > Len(G) THEN acc
  ELSE LET a == SumY(tab, "tr", G[i])  r == Cnt(tab, "tr", G[i])
       IN  SumSqOverR(tab, G, i + 1, RatAdd(acc, <<BNMul(BNN(a), BNN(a)), BNN(r)>>))

EmptyGroup(tab, G) == \E i \in DOMAIN G : Cnt(tab, "tr", G[i]) = 0

(* W = chi2/n * c0*c1 (c0*c1 is constant inside a stage); scipy applies Yates' correction to 2x2 *)
WBin(tab, stage, G) ==
  LET n  == Total(tab, "tr", stage)
      c1 == SumY(tab, "tr", StageIds(tab, stage))
  IN IF EmptyGroup(tab, G) THEN <<BNZero, BNN(1)>>
     ELSE IF Len(G) = 2
       THEN LET a1 == SumY(tab, "tr", G[1])  r1 == Cnt(tab, "tr", G[1])  r2 == Cnt(tab, "tr", G[2])
                y  == Max2(2 * Abs(a1 * n - r1 * c1) - n, 0)
            IN  <<BNMul(BNN(y), BNN(y)), BNN(4 * r1 * r2)>>
       ELSE LET s == SumSqOverR(tab, G, 1, <<BNZero, BNN(1)>>)
            IN  <<BNSub(BNMul(BNN(n), s[1]), BNMul(BNN(c1 * c1), s[2])), s[2]>>

(* Kruskal-Wallis: H is increasing in sum_i R_i^2/n_i (mid-ranks of the pooled y of the stage) *)
Pool(tab, stage) ==
  LET RECURSIVE cat(_)
      cat(i) == IF i > tab.k THEN <<>> ELSE Cell(tab, "tr", i) \o cat(i + 1)
  IN  cat(IF stage = 1 THEN 1 ELSE 0)
R2Of(pool, v) == 2 * Cardinality({i \in DOMAIN pool : pool[i] < v})
                 + Cardinality({i \in DOMAIN pool : pool[i] = v}) + 1       \* doubled mid-rank
RECURSIVE R2Cell(_, _, _)
R2Cell(pool, c, i) == IF i > Len(c) THEN 0 ELSE R2Of(pool, c[i]) + R2Cell(pool, c, i + 1)
RECURSIVE R2Group(_, _, _, _)
R2Group(tab, pool, S, i) == IF i > tab.k THEN 0
                            ELSE (IF i \in S THEN R2Cell(pool, Cell(tab, "tr", i), 1) ELSE 0) + R2Group(tab, pool, S, i + 1)
RECURSIVE KruskalSum(_, _, _, _, _)
KruskalSum(tab, pool, G, i, acc) ==
  IF i > Len(G) THEN acc
  ELSE LET r == R2Group(tab, pool, G[i], 0)  n == Cnt(tab, "tr", G[i])
       IN  KruskalSum(tab, pool, G, i + 1, RatAdd(acc, <<BNMul(BNN(r), BNN(r)), BNN(n)>>))
WKruskal(tab, stage, G) ==
  IF EmptyGroup(tab, G) THEN <<BNZero, BNN(1)>>
  ELSE KruskalSum(tab, Pool(tab, stage), G, 1, <<BNZero, BNN(1)>>)

(* the quantity the candidates are ranked by *)
Measure(tab, cfg, stage, G) ==
  IF cfg.measure = "kruskal" THEN WKruskal(tab, stage, G)
  ELSE LET w == WBin(tab, stage, G) IN
       IF cfg.measure = "cramerv" THEN w
       ELSE <<BNMul(w[1], w[1]), BNMul(BNMul(w[2], w[2]), BNN(Len(G) - 1))>>      \* tschuprowt: W^2/(k-1)

(* A strictly better than B, by more than a relative 1e-9 (far above double rounding, far below *)
(* any difference between distinct measures of samples of <= 64 rows)                            *)
Giga == 1000000000
BetterM(ma, mb) == RatCmp(<<BNMul(ma[1], BNN(Giga)), ma[2]>>, <<BNMul(mb[1], BNN(Giga + 1)), mb[2]>>) = 1
Better(tab, cfg, stage, A, B) == BetterM(Measure(tab, cfg, stage, A), Measure(tab, cfg, stage, B))
ExactCmp(tab, cfg, stage, A, B) == RatCmp(Measure(tab, cfg, stage, A), Measure(tab, cfg, stage, B))

(* C16: the association value recorded in history() (m = the float scaled by 1e6 and rounded) against the *)
(* exact value: V^2 = chi2/n = W / (c0*c1), T^4 = V^4 / (k-1); tolerance: half a unit of the rounding    *)
Ten9  == BNN(1000000000)
Ten12 == BNMul(BNN(1000000), BNN(1000000))
AbsDiffBN(a, b) == IF BNCmp(a, b) >= 0 THEN BNSub(a, b) ELSE BNSub(b, a)
(* Kruskal-Wallis with scipy's tie correction: with K = sum (2R_j)^2 / n_j = kn/kd and T = sum (t^3 - t)  *)
(* over the tied y values,  H = 3 (kn - kd n (n+1)^2) (n-1) / (kd (n^3 - n - T))                          *)
TieTerm(pool) ==
  LET vals == {pool[i] : i \in DOMAIN pool}
      RECURSIVE sm(_)
      sm(S) == IF S = {} THEN 0
               ELSE LET v == CHOOSE x \in S : TRUE
                        t == Cardinality({i \in DOMAIN pool : pool[i] = v})
                    IN  t * t * t - t + sm(S \ {v})
  IN  sm(vals)
KruskalValueOK(tab, stage, G, m) ==
  LET pool == Pool(tab, stage)
      n    == Len(pool)
      dd   == n * n * n - n - TieTerm(pool)
  IN  IF dd = 0 \/ EmptyGroup(tab, G) THEN TRUE
      ELSE LET k   == WKruskal(tab, stage, G)
               Den == BNMul(k[2], BNN(dd))
               Num == BNMul(BNSub(k[1], BNMul(k[2], BNN(n * (n + 1) * (n + 1)))), BNN(3 * (n - 1)))
           IN  BNCmp(AbsDiffBN(BNMul(BNN(m), Den), BNMul(BNN(1000000), Num)), BNMul(BNN(2), Den)) <= 0
MeasureValueOK(tab, cfg, stage, G, m) ==
  LET n  == Total(tab, "tr", stage)
      c1 == SumY(tab, "tr", StageIds(tab, stage))
      c0 == n - c1
  IN  IF cfg.measure = "kruskal" THEN KruskalValueOK(tab, stage, G, m)
      ELSE IF c0 * c1 = 0 \/ EmptyGroup(tab, G) THEN TRUE
      ELSE LET w  == WBin(tab, stage, G)
               D  == BNMul(w[2], BNN(c0 * c1))
               m2 == BNMul(BNN(m), BNN(m))
           IN  IF cfg.measure = "cramerv"
               \* m = round(1e6 V): |m^2 - 1e12 V^2| <= (m + 2)
               THEN BNCmp(AbsDiffBN(BNMul(m2, D), BNMul(Ten12, w[1])), BNMul(BNN(m + 2), D)) <= 0
               ELSE LET k1 == Len(G) - 1
                        D2 == BNMul(D, D)
                    IN  BNCmp(AbsDiffBN(BNMul(BNMul(BNMul(m2, m2), D2), BNN(k1)),
                                        BNMul(BNMul(Ten12, Ten12), BNMul(w[1], w[1]))),
                              \* m = round(1e6 T): |m^4 - 1e24 T^4| <= 2 (m + 1)^3
                              BNMul(BNMul(BNMul(BNN(2), BNMul(BNN(m + 1), BNMul(BNN(m + 1), BNN(m + 1)))), D2), BNN(k1))) <= 0

-----------------------------------------------------------------------------
(* Property C01: optimal viable grouping, two-stage *)
HasStage2(tab, cfg) == cfg.dropna /\ cfg.hasnan

(* best among a candidate set: acceptable under some reading (Loose), not beaten by any candidate *)
(* that is acceptable under every reading (Strict)                                              *)
OptSet(tab, cfg, stage, cands) ==
  LET m      == [c \in cands |-> Measure(tab, cfg, stage, c)]
      strict == {c \in cands : ViableStrict(tab, cfg, stage, c)}
  IN  {G \in cands : ViableLoose(tab, cfg, stage, G) /\ \A c \in strict : ~BetterM(m[c], m[G])}
Opt1(tab, cfg) == OptSet(tab, cfg, 1, Cands1(tab, cfg))

(* F = the observed final grouping (missing-value bucket included when it was grouped) *)
C01Opt(tab, cfg, F) ==
  IF tab.k < 2 THEN FALSE
  ELSE IF ~HasStage2(tab, cfg) THEN DropNan(F) \in Opt1(tab, cfg)
  ELSE \E G \in Opt1(tab, cfg) : F \in OptSet(tab, cfg, 2, Cands2(G, cfg))

NoStrict(tab, cfg, stage, cands) == \A c \in cands : ~ViableStrict(tab, cfg, stage, c)
C01Drop(tab, cfg) ==
  \/ tab.k < 2
  \/ NoStrict(tab, cfg, 1, Cands1(tab, cfg))
  \/ (HasStage2(tab, cfg) /\ \E G \in Opt1(tab, cfg) : NoStrict(tab, cfg, 2, Cands2(G, cfg)))

(* Property C02 on a grouping (design level): size and frequency bounds *)
C02Bounds(tab, cfg, F) ==
  IF HasStage2(tab, cfg)
  THEN Len(F) <= cfg.maxmod /\ AllFreqOK(tab, cfg, "tr", 2, F)
  ELSE Len(DropNan(F)) <= cfg.maxmod /\ AllFreqOK(tab, cfg, "tr", 1, DropNan(F))
=============================================================================
