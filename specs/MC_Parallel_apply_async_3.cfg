CONSTANTS
  Features = {1, 2, 3}
  NWorkers = 3
  Discipline = "apply_async"
SPECIFICATION Spec
INVARIANT Inv_C10
PROPERTY Termination
CHECK_DEADLOCK FALSE
