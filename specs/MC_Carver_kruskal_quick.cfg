CONSTANTS
  Kind = "cont"
  MaxK = 3
  MaxCell = 1
  YVals = {0, 1, 2}
  MaxMods = {2, 3}
  Thresholds <- ThrA
  Measures = {"kruskal"}
  DevFlags = {FALSE}
  NanFlags = {FALSE, TRUE}
  DropFlags = {TRUE, FALSE}
SPECIFICATION Spec
INVARIANT Inv_C01_opt
INVARIANT Inv_C01_drop
INVARIANT Inv_C02
INVARIANT Inv_C03
INVARIANT Inv_C16_hist
CHECK_DEADLOCK FALSE
