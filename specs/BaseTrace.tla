----------------------------- MODULE BaseTrace -----------------------------
(***************************************************************************)
(* Trace validation (code -> spec) of the base discretization of ONE       *)
(* feature by the real ContinuousDiscretizer / QuantitativeDiscretizer /   *)
(* OrdinalDiscretizer / CategoricalDiscretizer (alone or inside            *)
(* Discretizer / QualitativeDiscretizer / a carver).                        *)
(* case.kind = "quanti": df (sorted ranks of the non-missing training      *)
(*   values), ys (their y, aligned), lendf, mf <<num,den>>, merge (TRUE    *)
(*   when the rare-bucket merge with min_freq/2 follows), bounds (observed *)
(*   base boundaries = all members of values_orders, +inf excluded),       *)
(*   groups (observed final groups: sequences of boundary ranks, INF for   *)
(*   +inf), hasnan (missing-value modality present), nnan                  *)
(* case.kind = "ordinal": n / s / u per modality in ranking order, lendf,  *)
(*   mf, groups (observed final groups as sequences of modality ids)       *)
(* case.kind = "categ": n / s per observed value id, lendf, mf, dflt       *)
(*   (ids in the default group), order (leader ids in fitted order; 0 =    *)
(*   missing values, -1 = default group), nanrows                          *)
(* events: one per rare-modality merge decision observed by wrapping       *)
(*   find_closest_modality: [d |-> index discarded, k |-> index kept]      *)
(***************************************************************************)
EXTENDS BaseOps, Json, IOUtils

INF == 1000000
Cases == JsonDeserialize(IOEnv.TRACE_FILE).cases

VARIABLES tid, l, gs, fail, done
vars == <<tid, l, gs, fail, done>>
C == Cases[tid]
Events == C.events
Flag(cond, name) == IF cond THEN {} ELSE {name}
Mf == C.mf
HalfMf == <<C.mf[1], 2 * C.mf[2]>>

(* ---- the modalities the merge loop starts from ---- *)
SortedBounds == SetToSortSeq(BRng(C.bounds), LAMBDA a, b : a < b)
QBuckets ==      \* quantile buckets (lo, hi] of the observed boundaries, the last one unbounded
  LET sb == SortedBounds  nb == Len(sb) IN
  [i \in 1..(nb + 1) |->
     LET lo == IF i = 1 THEN 0 - 1 ELSE sb[i - 1]
         hi == IF i = nb + 1 THEN INF ELSE sb[i]
         idx == {j \in DOMAIN C.df : lo < C.df[j] /\ C.df[j] <= hi}
         RECURSIVE sumy(_)
         sumy(S) == IF S = {} THEN 0 ELSE LET j == CHOOSE x \in S : TRUE IN C.ys[j] + sumy(S \ {j})
     IN [m |-> {i}, n |-> Cardinality(idx), s |-> sumy(idx), u |-> idx = {}]]
OBuckets == [i \in DOMAIN C.n |-> [m |-> {i}, n |-> C.n[i], s |-> C.s[i], u |-> C.n[i] = 0]]
StartGs == IF C.kind = "quanti" THEN QBuckets ELSE IF C.kind = "ordinal" THEN OBuckets ELSE <<>>
MergeMf == IF C.kind = "quanti" THEN HalfMf ELSE Mf

Init == /\ tid \in 1..Len(Cases) /\ l = 1 /\ gs = StartGs /\ fail = {} /\ done = FALSE

(* one observed merge decision *)
StepMerge ==
  /\ ~done /\ l <= Len(Events)
  /\ LET e == Events[l] IN
       IF e.d \notin DOMAIN gs \/ e.k \notin DOMAIN gs \/ e.d = e.k
       THEN /\ fail' = fail \cup {"Conf_merge_index_out_of_range"} /\ gs' = gs
       ELSE /\ fail' = fail
                 \cup Flag(e.k = e.d - 1 \/ e.k = e.d + 1, "C03_merged_into_non_neighbour")
                 \cup Flag(NeedsMerge(gs, MergeMf, C.lendf), "Conf_merge_not_needed")
                 \cup Flag(e.d = ArgMinIdx(gs), "Conf_merge_not_rarest")
                 \cup Flag(e.k \in ClosestIdxSet(gs, e.d, MergeMf, C.lendf), "Conf_merge_neighbour_choice")
            /\ gs' = LET r == MergeInto(gs, e.d, e.k) IN [i \in DOMAIN r |-> r[i].g]
  /\ l' = l + 1
  /\ UNCHANGED <<tid, done>>

-----------------------------------------------------------------------------
(* ---- property clauses on the observed result ---- *)
ObsGroups == [i \in DOMAIN C.groups |-> BRng(C.groups[i])]

QuantiClauses ==
  LET df == C.df  n == C.lendf  sb == SortedBounds  nb == Len(sb)
      fq == Frequent(df, Mf, n)
      \* bucket ids of a final group: boundary rank -> bucket index
      bidx(b) == IF b = INF THEN nb + 1 ELSE CHOOSE i \in 1..nb : sb[i] = b
      final == [i \in DOMAIN ObsGroups |-> {bidx(b) : b \in ObsGroups[i]}]
      cnt(S) == Cardinality({j \in DOMAIN df : \E i \in S :
                   (IF i = 1 THEN TRUE ELSE sb[i - 1] < df[j]) /\ (IF i = nb + 1 THEN TRUE ELSE df[j] <= sb[i])})
  IN  Flag(Len(C.bounds) = Cardinality(BRng(C.bounds))
           /\ \A i \in 1..(Len(C.bounds) - 1) : C.bounds[i] < C.bounds[i + 1], "C09_boundaries_not_increasing")
 \cup Flag(BRng(C.bounds) \subseteq BRng(df), "C09_boundary_not_an_observed_value")
 \cup Flag(fq \subseteq BRng(C.bounds), "C09_frequent_value_not_a_boundary")
 \cup Flag(\A i \in 1..(nb + 1) :
             LET lo == IF i = 1 THEN 0 - 1 ELSE sb[i - 1]  hi == IF i = nb + 1 THEN INF ELSE sb[i] IN
             BucketFreeOfFrequent(df, Mf, n, lo, hi) => BucketCount(df, lo, hi) * 2 * Mf[2] <= 5 * Mf[1] * n,
           "C09_bucket_over_2_5_min_freq")
 \cup Flag(C.hasnan = (C.nnan > 0), "C09_missing_values_not_separate")
 \cup Flag(BRng(C.bounds) = Quantiles(df, Mf, n), "Conf_quantiles")
 \* final groups: intervals of the boundary order, every boundary in exactly one group
 \cup Flag(/\ UNION {final[i] : i \in DOMAIN final} = 1..(nb + 1)
           /\ \A i, j \in DOMAIN final : i # j => final[i] \cap final[j] = {}
           /\ \A i \in DOMAIN final : RunOK(final[i], nb + 1)
           /\ \A i, j \in DOMAIN final : i < j => \A a \in final[i], b \in final[j] : a < b,
           "C03_quanti_group_not_an_interval")
 \cup (IF ~C.merge THEN {}
       ELSE Flag(Len(final) = 1 \/ \A i \in DOMAIN final : cnt(final[i]) * 2 * Mf[2] >= Mf[1] * n,
                 "C09_quantitative_bucket_below_half_min_freq")
            \cup Flag([i \in DOMAIN gs |-> gs[i].m] = final, "Conf_merge_result"))

OrdinalClauses ==
  LET K == Len(C.n)  final == ObsGroups
      cnt(S) == LET RECURSIVE sm(_)
                    sm(T) == IF T = {} THEN 0 ELSE LET j == CHOOSE x \in T : TRUE IN C.n[j] + sm(T \ {j})
                IN sm(S)
  IN  Flag(/\ UNION {final[i] : i \in DOMAIN final} = 1..K
           /\ \A i, j \in DOMAIN final : i # j => final[i] \cap final[j] = {}
           /\ \A i \in DOMAIN final : RunOK(final[i], K)
           /\ \A i, j \in DOMAIN final : i < j => \A a \in final[i], b \in final[j] : a < b,
           "C03_ordinal_group_not_contiguous")
 \cup Flag(Len(final) = 1 \/ \A i \in DOMAIN final : cnt(final[i]) * Mf[2] >= Mf[1] * C.lendf,
           "C09_ordinal_bucket_below_min_freq")
 \cup Flag([i \in DOMAIN gs |-> gs[i].m] = final, "Conf_merge_result")
 \cup Flag(C.hasnan = (C.nnan > 0), "C09_missing_values_not_separate")

CategClauses ==
  LET ids == DOMAIN C.n
      rare == {v \in ids : C.n[v] * Mf[2] < Mf[1] * C.lendf}
      dflt == BRng(C.dflt)
      \* rate of a leader: default group = pooled rare values
      nOf(ldr) == IF ldr = 0 - 1 THEN LET RECURSIVE sm(_)
                                        sm(T) == IF T = {} THEN 0 ELSE LET j == CHOOSE x \in T : TRUE IN C.n[j] + sm(T \ {j})
                                    IN sm(dflt) ELSE IF ldr \in ids THEN C.n[ldr] ELSE 0      \* (a leader never observed holds no row)
      sOf(ldr) == IF ldr = 0 - 1 THEN LET RECURSIVE sm(_)
                                        sm(T) == IF T = {} THEN 0 ELSE LET j == CHOOSE x \in T : TRUE IN C.s[j] + sm(T \ {j})
                                    IN sm(dflt) ELSE IF ldr \in ids THEN C.s[ldr] ELSE 0
      ord == SelectSeq(C.order, LAMBDA x : x # 0)
  IN  Flag(dflt = rare, "C09_default_group_iff_rare")
 \cup Flag((C.nanrows > 0) = (0 \in BRng(C.order)) /\ (0 \in BRng(C.order) => C.order[Len(C.order)] = 0),
           "C09_missing_values_not_separate")
 \cup Flag(BRng(ord) = (ids \ dflt) \cup (IF dflt = {} THEN {} ELSE {0 - 1}), "C09_categorical_modalities")
 \cup Flag(\A i \in 1..(Len(ord) - 1) : sOf(ord[i]) * nOf(ord[i + 1]) <= sOf(ord[i + 1]) * nOf(ord[i]),
           "C03_categorical_not_in_target_rate_order")

Finish ==
  /\ ~done /\ l > Len(Events)
  /\ LET f == fail \cup (IF C.kind = "quanti" THEN QuantiClauses
                         ELSE IF C.kind = "ordinal" THEN OrdinalClauses ELSE CategClauses)
         \* known finding F10: every frequent value that is not a boundary is infrequent for q = round(1/min_freq)
         qdown == C.kind = "quanti" /\ QOf(Mf) * Mf[1] < Mf[2]
                  /\ \A v \in Frequent(C.df, Mf, C.lendf) \ BRng(C.bounds) : CountIn(C.df, v) * QOf(Mf) < C.lendf
     IN done' = PrintT(<<"VERDICT", tid, f, [q_rounds_down |-> qdown]>>)
  /\ UNCHANGED <<tid, l, gs, fail>>

Next == StepMerge \/ Finish
Spec == Init /\ [][Next]_vars
=============================================================================
