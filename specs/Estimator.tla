------------------------------ MODULE Estimator ------------------------------
(***************************************************************************)
(* Design model of the life-cycle of ONE fitted feature of a discretizer / *)
(* carver object: building values_orders (base discretization and carving  *)
(* are sequences of GroupedList.group calls), fit, transform of single      *)
(* cells, manual edits (update_discretizer), JSON reload, refused calls.   *)
(* The state is the abstract object of EstimatorOps.tla; `last` records    *)
(* the last call and its result so that the properties can be stated as    *)
(* invariants / action properties.                                         *)
(***************************************************************************)
EXTENDS EstimatorOps

CONSTANTS Kind,        \* "quali" | "quanti"
          Vals,        \* value codes of the feature (quanti: ranks, without INF)
          Dtypes,      \* subset of {"str", "float"}
          MaxEdits

VARIABLES obj, last, edits
vars == <<obj, last, edits>>

Ft == obj.feats[1]
Universe == Vals \cup {NAN} \cup (IF Kind = "quali" THEN {DEFAULT} ELSE {INF})
Cells == IF Kind = "quali" THEN {<<v, v>> : v \in Vals \cup {NAN, 99}}      \* 99: never seen
         ELSE Vals \cup {NAN, 0 - 5, 500}                                      \* below / above every boundary
Perms(S) == {p \in [1..Cardinality(S) -> S] : GLRng(p) = S}

Init ==
  /\ \E dt \in Dtypes, dn \in BOOLEAN, S \in SUBSET Universe : \E p \in Perms(S) :
       /\ (Kind = "quanti" => INF \in S /\ \A i, j \in DOMAIN p : (i < j /\ p[i] # NAN /\ p[j] # NAN) => p[i] < p[j])
       /\ (NAN \in S => p[Len(p)] = NAN)                  \* the library keeps the missing-value modality last
       /\ S \ {NAN} # {}
       /\ obj = [fitted |-> FALSE, dtype |-> dt, feats |-> <<[kind |-> Kind, vo |-> GLFromList(p), dropna |-> dn]>>]
  /\ last = [call |-> "init", cell |-> 0, out |-> <<4, 0>>, before |-> 0]
  /\ edits = 0

(* base discretization / carving: merge a group into another one (quanti: into the upper neighbour) *)
Merge(d, k) ==
  /\ ~obj.fitted /\ d # k /\ ValidGroup(Ft.vo, d, k)
  /\ (Kind = "quanti" => d # NAN /\ k # NAN /\ d < k /\ ~\E x \in GLLeaders(Ft.vo) \ {NAN} : d < x /\ x < k)
  /\ (d = NAN => Ft.dropna)
  /\ obj' = [obj EXCEPT !.feats[1].vo = GLGroup(Ft.vo, d, k)]
  /\ last' = [call |-> "merge", cell |-> 0, out |-> <<4, 0>>, before |-> 0]
  /\ UNCHANGED edits

Fit == /\ ~obj.fitted
       /\ obj' = [obj EXCEPT !.fitted = TRUE]
       /\ last' = [call |-> "fit", cell |-> 0, out |-> <<4, 0>>, before |-> obj]
       /\ UNCHANGED edits

Transform(c) ==
  /\ obj.fitted
  /\ LET w == Lands(Ft, c) IN
       last' = [call |-> IF w.t = "rej" THEN "transform_rejected" ELSE "transform",
                cell |-> c, out |-> ExpectedCell(obj, 1, c), before |-> obj]
  /\ UNCHANGED <<obj, edits>>

Update(mode, d, k) ==
  /\ obj.fitted /\ edits < MaxEdits
  /\ ValidEdit(Ft.vo, mode, d, k)
  /\ (Kind = "quanti" /\ mode = "group" /\ d # NAN => d < k /\ ~\E x \in GLLeaders(Ft.vo) \ {NAN} : d < x /\ x < k)
  /\ (Kind = "quanti" /\ mode = "replace" =>      \* move a threshold without crossing a neighbour
        \A x \in GLLeaders(Ft.vo) \ {NAN, d} : (x < d <=> x < k))
  /\ obj' = [obj EXCEPT !.feats[1].vo = UpdateVo(Ft.vo, mode, d, k),
                        !.feats[1].dropna = (Ft.dropna \/ d = NAN)]
  /\ last' = [call |-> "update", cell |-> <<mode, d, k>>, out |-> <<4, 0>>, before |-> obj]
  /\ edits' = edits + 1

Reload == /\ obj.fitted /\ last.call # "reload"
          /\ last' = [call |-> "reload", cell |-> 0, out |-> <<4, 0>>, before |-> obj]
          /\ UNCHANGED <<obj, edits>>

BadCall == /\ last.call # "badcall"
           /\ last' = [call |-> "badcall", cell |-> 0, out |-> <<4, 0>>, before |-> obj]
           /\ UNCHANGED <<obj, edits>>

Next ==
  \/ \E d, k \in Universe : Merge(d, k)
  \/ Fit
  \/ \E c \in Cells : Transform(c)
  \/ \E mode \in {"group", "replace"}, d \in Universe, k \in Universe \cup {77} : Update(mode, d, k)
  \/ Reload \/ BadCall
Spec == Init /\ [][Next]_vars

-----------------------------------------------------------------------------
Inv_C08_WellFormed == GLWellFormed(Ft.vo)
(* C04: distinct groups get distinct labels; the label of a seen value is the label of its group *)
Inv_C04_Injective == obj.fitted =>
  \A a, b \in GLLeaders(Ft.vo) : a # b => LabelOf(obj.dtype, Ft, a) # LabelOf(obj.dtype, Ft, b)
(* C05: a transform either rejects (unseen category without default, missing value never seen) or *)
(* outputs a label of the fitted label set -- never a raw value                                    *)
Inv_C05_LabelOrReject ==
  /\ last.call = "transform" => (last.out \in LabelSet(obj.dtype, Ft) \/ (Kind = "quanti" /\ last.out = <<4, 0>> /\ FALSE))
  /\ last.call = "transform_rejected" =>
        (IF Kind = "quali" THEN (last.cell[1] = NAN /\ ~HasNan(Ft.vo)) \/ (last.cell[1] \notin GLValues(Ft.vo) /\ ~HasDefault(Ft.vo))
         ELSE last.cell = NAN /\ ~HasNan(Ft.vo))
(* C03: with float labels transform is non-decreasing in a quantitative value *)
Inv_C03_Monotone == (obj.fitted /\ Kind = "quanti" /\ obj.dtype = "float") =>
  \A x, y \in Cells \ {NAN} : x <= y =>
      LET ox == ExpectedCell(obj, 1, x)  oy == ExpectedCell(obj, 1, y) IN
      (ox[1] = 1 /\ oy[1] = 1) => ox[2] <= oy[2]
(* C07 / C19 / C06: transform, refused calls and reloads leave the fitted state unchanged *)
Act_C07_C19 == [][last'.call \in {"transform", "transform_rejected", "badcall", "reload"} => obj' = obj]_vars
(* C17: after a valid edit the members of the discarded group carry the kept group's label and the *)
(* grouping of every other value is unchanged; "replace" only renames                              *)
SameGroup(vo, a, b) == GLGetGroup(vo, a) = GLGetGroup(vo, b)
Inv_C17_Edit == last.call = "update" =>
  LET old == last.before.feats[1].vo  new == Ft.vo
      mode == last.cell[1]  d == last.cell[2]  k == last.cell[3]
  IN  /\ GLWellFormed(new)
      /\ GLValues(old) \subseteq GLValues(new)
      /\ \A a, b \in GLValues(old) :
            IF mode = "group"
            THEN SameGroup(new, a, b) <=> (SameGroup(old, a, b)
                     \/ ({GLGetGroup(old, a), GLGetGroup(old, b)} = {d, k}))
            ELSE SameGroup(new, a, b) <=> SameGroup(old, a, b)
      /\ (mode = "group" /\ d \in GLValues(old) /\ k \in GLValues(old)) => GLGetGroup(new, d) = k
      /\ (mode = "replace") => k \in GLLeaders(new) /\ d \in GLMembers(new, k)
=============================================================================
