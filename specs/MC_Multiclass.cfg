CONSTANTS
  LabelSets <- LS
  Features = {1, 2}
SPECIFICATION Spec
INVARIANT Inv_C12
INVARIANT Inv_C12_FirstSkipped
INVARIANT Inv_C12_RawUntouched
CHECK_DEADLOCK FALSE
