"""A deterministic stand-in for multiprocessing.Pool that replays a worker completion order.

Arguments and results cross a pickle boundary (as with real worker processes), tasks are executed
in the scheduled completion order, `imap_unordered` yields results in that order, `apply_async`
results are read back with get() in whatever order the caller asks."""
from __future__ import annotations

import pickle


class _Async:
    def __init__(self, pool, key):
        self.pool, self.key = pool, key

    def get(self, timeout=None):
        self.pool._run_pending()
        return self.pool._results[self.key]


class FakePool:
    """schedule: list of feature names = completion order (features not listed complete last, in
    submission order).  Used as `module.Pool = FakePoolFactory(schedule)`."""

    def __init__(self, schedule, log=None):
        self.schedule = list(schedule)
        self._pending = []
        self._results = {}
        self.log = log if log is not None else []

    def __enter__(self):
        return self

    def __exit__(self, *a):
        return False

    @staticmethod
    def _name(item):
        """the feature a task is about: the name itself, a named column, or the first such thing in a tuple"""
        if isinstance(item, str) or item is None:
            return item
        nm = getattr(item, 'name', None)
        if isinstance(nm, str):
            return nm
        if isinstance(item, (tuple, list)):
            for x in item:
                k = FakePool._name(x)
                if isinstance(k, str):
                    return k
        return None

    def _rank(self, item):
        feature = self._name(item)
        return self.schedule.index(feature) if (feature is not None and feature in self.schedule) else len(self.schedule)

    @staticmethod
    def _isolate(obj):
        return pickle.loads(pickle.dumps(obj))

    def imap_unordered(self, func, iterable, chunksize=1):
        items = list(iterable)
        order = sorted(range(len(items)), key=lambda i: (self._rank(items[i]), i))
        for i in order:
            f = self._isolate(func)
            res = self._isolate(f(self._isolate(items[i])))
            self.log.append(('imap_unordered', items[i]))
            yield res

    def apply_async(self, func, args=(), kwds=None):
        key = len(self._pending) + len(self._results)
        self._pending.append((key, func, args, kwds or {}))
        return _Async(self, key)

    def _run_pending(self):
        pend, self._pending = self._pending, []
        order = sorted(range(len(pend)), key=lambda i: (self._rank(pend[i][2][0] if pend[i][2] else None), i))
        for i in order:
            key, func, args, kwds = pend[i]
            f = self._isolate(func)
            self._results[key] = self._isolate(f(*self._isolate(args), **self._isolate(kwds)))
            self.log.append(('apply_async', args[0] if args else None))


class Factory:
    def __init__(self, schedule):
        self.schedule = schedule
        self.log = []
        self.instances = 0

    def __call__(self, processes=None, *a, **k):
        self.instances += 1
        return FakePool(self.schedule, self.log)


class patched:
    """with patched(schedule) as fac: ...  -- replaces Pool in the three modules that use it."""
    MODULES = ['AutoCarver.discretizers.utils.quantitative_discretizers', 'AutoCarver.discretizers.utils.type_discretizers',
               'AutoCarver.discretizers.utils.base_discretizers']

    def __init__(self, schedule):
        self.fac = Factory(schedule)

    def __enter__(self):
        import importlib
        self.saved = []
        for m in self.MODULES:
            mod = importlib.import_module(m)
            self.saved.append((mod, mod.Pool))
            mod.Pool = self.fac
        return self.fac

    def __exit__(self, *a):
        for mod, orig in self.saved:
            mod.Pool = orig
        return False
