"""Running TLC (model checking of the design specs, judging of recorded traces) and parsing
its output.  Every invocation runs under a timeout, with its metadir and java.io.tmpdir inside
a scratch directory that the caller owns and removes."""
from __future__ import annotations

import json
import os
import re
import shutil
import subprocess
import tempfile
import time
from concurrent.futures import ThreadPoolExecutor
from dataclasses import dataclass, field

from . import tlaval

VERIF = os.path.dirname(os.path.dirname(os.path.dirname(os.path.abspath(__file__))))
SPECS = os.path.join(VERIF, 'specs')
JAR = '/opt/veriftools/tla/tla2tools.jar'
DEPS = '/opt/veriftools/tla/CommunityModules-deps.jar'


class MachineryError(RuntimeError):
    """The verification machinery itself failed (exit code 2)."""


def scratch_dir(prefix='acverif-') -> str:
    base = os.environ.get('TMPDIR') or '/tmp'
    return tempfile.mkdtemp(prefix=prefix, dir=base)


def _java_cmd(tmpdir: str, heap: str = '4g', extra_props=()) -> list[str]:
    return ['java', '-XX:+UseParallelGC', f'-Xmx{heap}', f'-Djava.io.tmpdir={tmpdir}',
            *extra_props, '-cp', f'{JAR}:{DEPS}', 'tlc2.TLC']


@dataclass
class McResult:
    module: str
    cfg: str
    ok: bool
    generated: int = 0
    distinct: int = 0
    depth: int = 0
    violated: str | None = None
    error: str | None = None
    wall_s: float = 0.0
    coverage: dict = field(default_factory=dict)   # action name -> (distinct, generated)
    uncovered_actions: list = field(default_factory=list)
    stdout_tail: str = ''
    counterexample: list = field(default_factory=list)

    def summary(self) -> dict:
        return {'module': self.module, 'cfg': self.cfg, 'ok': self.ok, 'states_generated': self.generated,
                'distinct_states': self.distinct, 'depth': self.depth, 'violated': self.violated,
                'wall_s': round(self.wall_s, 2),
                'actions': {k: list(v) for k, v in sorted(self.coverage.items())},
                'actions_never_taken': self.uncovered_actions}


_RE_STATES = re.compile(r'(\d+) states generated, (\d+) distinct states found')
_RE_DEPTH = re.compile(r'depth of the complete state graph search is (\d+)')
_RE_INV = re.compile(r'Error: Invariant (\S+) is violated')
_RE_ACTPROP = re.compile(r'Error: Action property (\S+) is violated')
_RE_VERDICT = re.compile(r'<<\s*"VERDICT"')
_RE_COV = re.compile(r'^<(\w+) line \d+, col \d+ to line \d+, col \d+ of module (\w+)(?: \([\d ]+\))?>: (\d+):(\d+)')


def run_mc(module: str, cfg: str, *, workers: int = 16, timeout: int = 900, coverage: bool = True,
           dump: str | None = None, scratch: str | None = None, simulate: str | None = None,
           depth: int | None = None, seed: int | None = None, heap='6g', deadlock=True,
           extra_args=()) -> McResult:
    """Model-check specs/<module>.tla under specs/<cfg> and parse the result."""
    own = scratch is None
    if own:
        scratch = scratch_dir()
    t0 = time.time()
    try:
        meta = tempfile.mkdtemp(prefix='meta-', dir=scratch)
        cmd = _java_cmd(scratch, heap) + ['-workers', str(workers), '-metadir', meta, '-noGenerateSpecTE',
                                          '-config', os.path.join(SPECS, cfg)]
        if coverage:
            cmd += ['-coverage', '1']
        if dump:
            cmd += ['-dump', dump]
        if simulate:
            cmd += ['-simulate', simulate]
        if depth is not None:
            cmd += ['-depth', str(depth)]
        if seed is not None:
            cmd += ['-seed', str(seed)]
        if not deadlock:
            cmd += ['-deadlock']
        cmd += list(extra_args)
        cmd += [os.path.join(SPECS, module + '.tla')]
        try:
            pr = subprocess.run(cmd, cwd=SPECS, capture_output=True, text=True, timeout=timeout)
        except subprocess.TimeoutExpired as e:
            raise MachineryError(f'TLC timed out after {timeout}s on {module}/{cfg}') from e
        out = pr.stdout
        res = McResult(module=module, cfg=cfg, ok=False, wall_s=time.time() - t0,
                       stdout_tail=out[-3000:])
        for m in _RE_STATES.finditer(out):
            res.generated, res.distinct = int(m.group(1)), int(m.group(2))
        m = _RE_DEPTH.search(out)
        if m:
            res.depth = int(m.group(1))
        m = _RE_INV.search(out) or _RE_ACTPROP.search(out)
        if m:
            res.violated = m.group(1)
            res.counterexample = _parse_counterexample(out)
        cov: dict = {}
        for line in out.splitlines():
            m = _RE_COV.match(line)
            if m:
                name = m.group(1)
                d, g = int(m.group(3)), int(m.group(4))
                pd, pg = cov.get(name, (0, 0))
                cov[name] = (max(pd, d), max(pg, g))
        res.coverage = cov
        res.uncovered_actions = sorted(k for k, (d, g) in cov.items() if g == 0 and k not in ('Init',))
        finished = ('Model checking completed. No error has been found' in out) or \
                   (simulate and pr.returncode == 0) or \
                   (simulate and 'The number of states generated' in out)
        if res.violated:
            res.ok = False
        elif finished and pr.returncode == 0:
            res.ok = True
        else:
            res.error = out[-2500:] + '\n' + pr.stderr[-1500:]
            raise MachineryError(f'TLC failed on {module}/{cfg} (exit {pr.returncode}):\n{res.error}')
        return res
    finally:
        if own:
            shutil.rmtree(scratch, ignore_errors=True)


def _parse_counterexample(out: str) -> list:
    states = []
    blocks = re.split(r'^State \d+: .*$', out, flags=re.M)
    for b in blocks[1:]:
        lines = []
        for ln in b.splitlines():
            if ln.startswith('/\\') or (lines and ln.startswith(' ')):
                lines.append(ln)
            elif lines and not ln.strip():
                break
        if lines:
            try:
                states.append(tlaval.parse_state('\n'.join(lines)))
            except tlaval.TlaParseError:
                states.append({'raw': '\n'.join(lines)})
    return states


# ---------------------------------------------------------------------------------------------
# Judging traces
# ---------------------------------------------------------------------------------------------

@dataclass
class JudgeResult:
    verdicts: dict          # case index (0-based in the input list) -> list of failed clause names
    info: dict              # case index -> dict of extra facts reported by the trace spec
    generated: int
    distinct: int
    wall_s: float


def _run_trace_shard(module: str, cfg: str, payload: dict, scratch: str, idx: int, timeout: int):
    tf = os.path.join(scratch, f'trace-{idx}.json')
    with open(tf, 'w') as f:
        json.dump(payload, f, separators=(',', ':'))
    meta = tempfile.mkdtemp(prefix=f'meta-{idx}-', dir=scratch)
    env = dict(os.environ)
    env['TRACE_FILE'] = tf
    cmd = _java_cmd(scratch, '3g') + ['-workers', '1', '-metadir', meta, '-noGenerateSpecTE', '-deadlock',
                                      '-config', os.path.join(SPECS, cfg), os.path.join(SPECS, module + '.tla')]
    try:
        pr = subprocess.run(cmd, cwd=SPECS, capture_output=True, text=True, timeout=timeout, env=env)
    except subprocess.TimeoutExpired as e:
        raise MachineryError(f'TLC trace judge timed out after {timeout}s on {module}') from e
    out = pr.stdout
    if pr.returncode != 0 or 'Model checking completed. No error has been found' not in out:
        raise MachineryError(f'TLC trace judge failed on {module} shard {idx} (exit {pr.returncode}):\n'
                             + out[-3000:] + pr.stderr[-1000:])
    verdicts, info = {}, {}
    pos = 0
    while True:
        m = _RE_VERDICT.search(out, pos)
        if not m:
            break
        val, end = tlaval.parse_prefix(out, m.start())
        pos = end
        tid = val[1]
        fails = val[2]
        verdicts[tid] = sorted(fails) if not isinstance(fails, list) else list(fails)
        if len(val) > 3:
            info[tid] = val[3]
    gen = dist = 0
    for m in _RE_STATES.finditer(out):
        gen, dist = int(m.group(1)), int(m.group(2))
    os.unlink(tf)
    shutil.rmtree(meta, ignore_errors=True)
    return verdicts, info, gen, dist


def judge(module: str, cases: list[dict], *, cfg: str | None = None, shard_size: int = 400,
          max_parallel: int = 16, timeout: int = 1200, strip=('meta',)) -> JudgeResult:
    """Let TLC judge every case with trace spec `module`.  Each case is a dict whose
    TLC-visible part is everything except the keys in `strip`.  Returns, per case index,
    the list of failed clause names (empty list = accepted)."""
    t0 = time.time()
    cfg = cfg or (module + '.cfg')
    if not cases:
        return JudgeResult({}, {}, 0, 0, 0.0)
    scratch = scratch_dir()
    try:
        shards = []
        # use all cores: at most `shard_size` cases per JVM, at least ~20 (JVM start-up ~1 s)
        nshards = max(1, min(max_parallel, (len(cases) + 19) // 20))
        per = max((len(cases) + nshards - 1) // nshards, 1)
        per = min(per, shard_size)
        for s in range(0, len(cases), per):
            shards.append((s, cases[s:s + per]))
        verdicts, info = {}, {}
        gen = dist = 0

        def work(k):
            base, chunk = shards[k]
            payload = {'cases': [{kk: vv for kk, vv in c.items() if kk not in strip} for c in chunk]}
            return base, len(chunk), _run_trace_shard(module, cfg, payload, scratch, k, timeout)

        with ThreadPoolExecutor(max_workers=max_parallel) as ex:
            for base, n, (v, inf, g, d) in ex.map(work, range(len(shards))):
                gen += g
                dist += d
                for tid in range(1, n + 1):
                    if tid not in v:
                        raise MachineryError(f'{module}: no verdict for case {base + tid - 1}')
                    verdicts[base + tid - 1] = v[tid]
                    if tid in inf:
                        info[base + tid - 1] = inf[tid]
        return JudgeResult(verdicts, info, gen, dist, time.time() - t0)
    finally:
        shutil.rmtree(scratch, ignore_errors=True)


def sany(module_path: str) -> tuple[bool, str]:
    pr = subprocess.run(['java', '-cp', f'{JAR}:{DEPS}', 'tla2sany.SANY', module_path],
                        cwd=os.path.dirname(module_path), capture_output=True, text=True, timeout=120)
    ok = pr.returncode == 0 and 'Semantic errors' not in pr.stdout and 'Parsing or semantic analysis failed' not in pr.stdout \
        and '*** Errors' not in pr.stdout and 'Fatal errors' not in pr.stdout
    return ok, pr.stdout[-2000:]
