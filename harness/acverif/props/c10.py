"""C10 -- features are processed independently; parallel equals sequential."""
from __future__ import annotations

import os
import shutil
from concurrent.futures import ProcessPoolExecutor

from .. import tlc, tlaval
from ..core import Ctx, Violation, jhash

STRIP = ('meta', 'id')
CFGS = [('MC_Parallel_imap_unordered_2.cfg', 2), ('MC_Parallel_imap_unordered_3.cfg', 3),
        ('MC_Parallel_apply_async_2.cfg', 2), ('MC_Parallel_apply_async_3.cfg', 3)]


def _work(args):
    seeds, schedules, hash_seeds = args
    from ..core import use_repo
    use_repo()
    from ..drivers import parallel
    out = []
    for s in seeds:
        try:
            out.extend(parallel.run_dataset(s, schedules, hash_seeds=hash_seeds, real_pool=False))
        except Exception:
            import traceback
            out.append({'harness_error': traceback.format_exc()[-1500:], 'seed': s})
    return out


def schedules_from_tlc(ctx: Ctx):
    """Model-check Parallel.tla and read every (iteration order, completion order) behaviour off the
    terminal states of the dump."""
    scheds = set()
    for cfg, w in CFGS:
        sc = tlc.scratch_dir()
        try:
            r = tlc.run_mc('Parallel', cfg, timeout=600, dump=os.path.join(sc, 'g'), scratch=sc)
            ctx.add_design(r)
            if not r.ok:
                raise tlc.MachineryError(f'design counterexample in Parallel.tla ({cfg}): {r.violated}\n{r.counterexample[-1:]}')
            for s in tlaval.parse_dump(os.path.join(sc, 'g.dump')):
                if s['phase'] == 'done':
                    scheds.add((tuple(s['featOrder']), tuple(s['outbox']), w))
        finally:
            shutil.rmtree(sc, ignore_errors=True)
    return sorted(scheds)


def run(ctx: Ctx):
    ctx.rule = ('spec->code: TLC explores Parallel.tla (3 features, 2 and 3 workers, imap_unordered and apply_async collection) and every terminal state '
                'yields a schedule (feature iteration order, worker completion order); each schedule is replayed on ContinuousDiscretizer, Discretizer and '
                'BinaryCarver (n_jobs = workers) through a fake Pool that executes tasks in the completion order and passes arguments / results through '
                'pickle; per feature the projection (values_orders[f], transform(X)[f]) must equal the one obtained by fitting the feature ALONE with '
                'n_jobs=1. Further runs per dataset: random feature subsets with shuffled list / column order, child interpreters with other '
                'PYTHONHASHSEED values, real multiprocessing pools (n_jobs 2, 3). TLC (ParallelTrace.tla) compares every run with the reference and checks '
                'that each replayed schedule is feasible for the pool model. Non-trivial: every (dataset, class) case; distinct by content.')
    ctx.assumptions = ['the OS schedule of real pools is not controllable: all completion orders are explored through the fake pool, real pools are smoke runs',
                       'iteration order inside nested discretizers depends on the hash seed only (list(set(features))): explored through child interpreters']
    scheds = schedules_from_tlc(ctx)
    ctx.notes['schedules_from_tlc'] = len(scheds)
    ctx.notes['design_invariants'] = ['Inv_C10', 'Termination']
    quick = ctx.tier == 'quick'
    n_ds = 16 if quick else 96
    hash_seeds = (1, 7) if quick else (1, 2, 3, 5, 7, 11, 13, 17, 19, 23, 29, 31)
    base = ctx.seed * 1_000_003
    seeds = [base + i for i in range(n_ds)]
    cases = []
    with ProcessPoolExecutor(max_workers=16) as ex:
        for part in ex.map(_work, [([s], scheds, hash_seeds if (quick and i < 4) or (not quick and i < 24) else ()) for i, s in enumerate(seeds)]):
            cases.extend(part)
    # real pools: in this process (pool workers must not be daemonic children)
    from ..core import use_repo
    use_repo()
    from ..drivers import parallel
    for s in seeds[:2 if quick else 12]:
        for c in parallel.run_dataset(s + 500_000, [], hash_seeds=(), real_pool=True):
            cases.append(c)
    for c in cases:
        if 'harness_error' in c:
            raise tlc.MachineryError(f'parallel driver failed (seed {c["seed"]}): {c["harness_error"]}')
    jr = tlc.judge('ParallelTrace', cases, strip=STRIP, shard_size=50)
    ctx.traces += sum(len(c['runs']) for c in cases)
    ctx.evaluations += sum(len(c['runs']) + c['nfeat'] for c in cases)
    ctx.states += jr.distinct
    ctx.transitions += jr.generated
    kinds = {}
    for i, c in enumerate(cases):
        ctx.nontrivial.add(jhash([c['id'], c['ref'], [r['res'] for r in c['runs']]]))
        for r in c['runs']:
            kinds[r['kind']] = kinds.get(r['kind'], 0) + 1
        for cl in jr.verdicts[i]:
            if cl.startswith('Drv_'):
                raise tlc.MachineryError(f'{cl} in {c["id"]}')
            if cl.startswith('C10_'):
                bad = [r for r in c['runs'] if r['clause'] == cl and any(x and x != y for x, y in zip(r['res'], c['ref']))]
                ctx.violations.append(Violation(
                    clause=cl, what=f'{c["id"]}: reference={c["ref"]} deviating runs={[(r["perm"], r["comp"], r["workers"], r["res"]) for r in bad[:3]]}',
                    sig={'driver': 'parallel.run_dataset', 'clause': cl, 'cls': c['meta']['cls']}, replay=c['meta']))
    ctx.notes['runs_per_kind'] = kinds
    ctx.notes['fake_pools_created'] = sum(c['meta']['fake_pools_created'] for c in cases)
    for c in cases[:2]:
        ctx.add_sample({'id': c['id'], 'ref': c['ref'], 'runs': c['runs'][:3]})
    ctx.exhaustive = True
    ctx.exhaustive_domain = 'every schedule of Parallel.tla (3 features; 2, 3 workers; both collection disciplines) replayed per dataset'


def replay(ctx: Ctx, rep: dict):
    from ..core import use_repo
    use_repo()
    from ..drivers import parallel
    scheds = schedules_from_tlc(ctx)
    cases = [c for c in parallel.run_dataset(rep['args']['seed'], scheds, hash_seeds=(1,), real_pool=False)]
    jr = tlc.judge('ParallelTrace', cases, strip=STRIP)
    ctx.traces += len(cases)
    ctx.evaluations += len(cases)
    for i, c in enumerate(cases):
        for cl in jr.verdicts[i]:
            if cl.startswith('C10_'):
                ctx.violations.append(Violation(clause=cl, what=f'replayed dataset still fails: {c["id"]}',
                                                sig={'driver': 'parallel.run_dataset', 'clause': cl, 'cls': c['meta']['cls']}, replay=rep))
