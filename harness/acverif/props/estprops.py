"""Property table of the estimator life-cycle checks."""
from __future__ import annotations

from .. import tlc
from ..core import Ctx
from . import estcommon as ec

COMMON_ASSUMPTIONS = [
    'values are projected to integer codes (order-isomorphic ranks for quantitative features, python-equality classes for qualitative ones)',
    'interval-string labels are compared up to a bijection inside one transform call',
    'TLC judges every call from the previously OBSERVED state of the object (EstimatorTrace.tla)',
]

TABLE = {
    'C04': dict(kinds=[('c04', 260, 2500)], prefixes=['C04_'], invariants=['Inv_C04_Injective'],
                rule='histories fit -> transform(training frame) -> JSON reload -> transform(training frame) on every discretizer / carver class '
                     '(seeded random specs: 1-3 features, quantitative styles incl. boundaries equal to 4 significant digits, 1e15, 1e-9, float32; qualitative '
                     'str / numeric-looking str / int / integer-valued float / mixed; ordinal rankings incl. never-observed values; dropna x output_dtype); '
                     'TLC recomputes for every row the group of values_orders holding the value and its label and compares with the output. '
                     'Non-trivial: a history with at least one successful transform; distinct by event hash.'),
    'C05': dict(kinds=[('c05', 260, 2500)], prefixes=['C05_'], invariants=['Inv_C05_LabelOrReject'],
                rule='histories fit -> transforms of derived frames: every boundary and its nextafter neighbours, below / above the range, +-1.7e308, '
                     'unseen categories (str, int, float, numeric-looking), a missing value injected where none was seen, empty and single-row frames; '
                     'TLC decides from the observed values_orders whether the frame must be rejected (and which feature must be named) or which label '
                     'every cell must get. Non-trivial: a history with at least 3 probe transforms.'),
    'C06': dict(kinds=[('c06', 220, 2000)], prefixes=['C06_'], invariants=['Act_C07_C19'],
                rule='histories fit -> (optional manual edits) -> json.dumps(to_json()) -> load_carver / load_discretizer -> the same probe frames on the '
                     'original and on the reloaded object; TLC compares outcome and every output cell of the pair (shared label table), the harness '
                     'compares summary() and the re-serialised JSON (normalised for dict / feature-list order). Non-trivial: reload succeeded and at '
                     'least 2 frame pairs compared.'),
    'C07': dict(kinds=[('c07', 160, 1500)], prefixes=['C07_'], invariants=['Act_C07_C19'],
                rule='histories: object A fit_transform(X, y); object B fit(X, y) then transform(X) (outputs compared cell by cell); then on A a shuffled '
                     'sequence of transforms of X, a row subset, a permutation, a re-indexed copy (offset / shuffled / string index), probe frames and '
                     'X again; after every call TLC checks the output row by row against the row-wise definition, that the projected state is unchanged, '
                     'the harness that inputs (copy=True), index, columns and non-feature columns are unchanged. Non-trivial: at least 5 transforms.'),
    'C08': dict(kinds=[('c08', 300, 3000), ('c04', 120, 1000)], prefixes=['C08_', 'unique_leaders', 'keys_are_leaders', 'disjoint', 'nodup_members', 'leader_in_own'],
                invariants=['Inv_C08_WellFormed'],
                rule='fits of every class on degenerate shapes (constant, all-missing, near-unique, many equally rare discrete values, one value plus missing, '
                     'tiny samples n=2..10, spikes) and on the ordinary random specs; TLC checks outcome in {ok, AssertionError}, that every values_orders '
                     'entry is a well-formed ordered partition (GL.tla) covering every training value, the harness that all per-feature attributes refer to the '
                     'kept features and that dropped columns are left bit-identical. Non-trivial: any fit that ran; distinct by event hash.'),
    'C16': dict(kinds=[('c16', 220, 2000)], prefixes=['C16_'], invariants=['Inv_C16_hist'],
                rule='histories fit -> summary() -> summary(f) for every kept feature (-> reload -> summary()); TLC checks the listed features, that '
                     'qualitative (label, content) rows partition the known string values with the label transform outputs, one row per quantitative group, '
                     'missing values shown in the group they were merged into; history() clauses come from the carver traces (CarverTrace.tla).'),
    'C17': dict(kinds=[('c17', 220, 2000)], prefixes=['C17_'], invariants=['Inv_C17_Edit'],
                rule='histories fit -> 1..3 valid update_discretizer edits (adjacent groups for ordered features, any groups for categorical ones, missing '
                     'values into an existing group, renames / threshold moves) each followed by transform(training frame), summary() and JSON reload + '
                     'transform; TLC recomputes the edited values_orders with GL.tla operators (UpdateVo) and compares, checks that other features are '
                     'untouched, and judges the transform / summary / reload that follow with the same clauses as C04 / C16 / C06.'),
    'C19': dict(kinds=[('c19', 220, 2000)], prefixes=['C19_'], invariants=['Act_C07_C19'],
                rule='histories on BinaryCarver, ContinuousCarver, MulticlassCarver, Discretizer, QualitativeDiscretizer, QuantitativeDiscretizer: malformed '
                     'calls (NaN in y, wrong class count, y indexed differently, non-DataFrame X, non-Series y, missing column in X / X_dev, feature both '
                     'quantitative and qualitative, strings in a quantitative feature, value absent from an ordinal ranking, unsupported sort_by, second fit, '
                     'transform without a fitted column) injected at a random position before and after a successful fit; TLC checks outcome = AssertionError '
                     'and that the projected state, JSON export and transform(training frame) are unchanged.'),
}
ALSO = {   # clauses of other kinds that also belong to a property (same traces, different driver)
    # after an edit, transform / summary / reload must keep agreeing: their clauses in the c17 histories belong to C17
    'C17': ['C17_reload_differs', 'C16_summary', 'C04_label', 'C06_summary_differs', 'C06_json_not_idempotent'],
    'C19': ['C19_transform_changed'],
    # row-wise purity: every transform of a subset / permutation / re-indexed frame is judged row by row against the
    # mapping, so label clauses observed in the c07 histories belong to C07
    'C07': ['C07_fit_transform_differs', 'C07_repeat_differs', 'C04_label', 'C05_label', 'C05_raw_value_leaked'],
    'C06': ['C06_behaviour'],
}


def design(ctx: Ctx):
    cfgs = ['MC_Estimator_quali_quick.cfg', 'MC_Estimator_quanti.cfg'] if ctx.tier == 'quick' else \
           ['MC_Estimator_quali.cfg', 'MC_Estimator_quanti.cfg']
    for cfg in cfgs:
        r = tlc.run_mc('Estimator', cfg, timeout=3000, coverage=(ctx.tier == 'quick'))
        ctx.add_design(r)
        if not r.ok:
            raise tlc.MachineryError(f'design counterexample in Estimator.tla ({cfg}): {r.violated}\n{r.counterexample[-2:]}')


REPLAYED = {'C04', 'C05', 'C06', 'C07', 'C17', 'C19'}


def replay_behaviours(ctx: Ctx, prefixes):
    """spec -> code: behaviours of Estimator.tla generated by `tlc -simulate` are stepped through real
    BaseDiscretizer objects; the projected state / output / outcome after every action must be the one
    of the specification."""
    from ..core import use_repo, Violation, jhash
    use_repo()
    from ..drivers import est_replay
    num = 150 if ctx.tier == 'quick' else 2000
    nb, ns, out = est_replay.run(num, 10, ctx.seed + 1)
    ctx.traces += nb
    ctx.evaluations += ns
    ctx.notes['spec_to_code_behaviours'] = nb
    ctx.notes['spec_to_code_steps'] = ns
    ctx.nontrivial.update(jhash(['beh', ctx.seed, i]) for i in range(nb))
    for cfg, i, cl, why, steps in out:
        if cl.startswith(tuple(prefixes)):
            ctx.violations.append(Violation(clause=cl, what=f'behaviour {i} of Estimator.tla ({cfg}) {steps[-4:]}: {why}',
                                            sig={'driver': 'est_replay.replay', 'clause': cl, 'cfg': cfg},
                                            replay={'driver': 'est_replay.replay', 'args': {'cfg': cfg, 'index': i, 'seed': ctx.seed + 1, 'num': num}}))
    if nb:
        ctx.add_sample({'kind': 'spec->code behaviour of Estimator.tla', 'steps': out[0][4] if out else 'all behaviours followed'}, limit=6)


def run(ctx: Ctx, extra=None):
    t = TABLE[ctx.pid]
    ctx.rule = t['rule']
    ctx.assumptions = list(COMMON_ASSUMPTIONS)
    ctx.notes['design_invariants'] = t['invariants']
    design(ctx)
    prefixes = list(t['prefixes']) + ALSO.get(ctx.pid, [])
    for kind, nq, nt in t['kinds']:
        ec.run_kind(ctx, kind, prefixes, nq, nt)
    if ctx.pid in REPLAYED:
        replay_behaviours(ctx, prefixes)
    if extra:
        extra(ctx)


def replay(ctx: Ctx, rep: dict):
    t = TABLE[ctx.pid]
    if rep.get('driver') == 'est_replay.replay':
        from ..core import use_repo, Violation
        use_repo()
        from ..drivers import est_replay
        behs = est_replay.simulate(rep['args']['cfg'], rep['args']['num'], 10, rep['args']['seed'])
        beh = behs[rep['args']['index']]
        ctx.traces += 1
        ctx.evaluations += len(beh)
        for cl, why in est_replay.replay(beh):
            if cl.startswith(tuple(list(t['prefixes']) + ALSO.get(ctx.pid, []))):
                ctx.violations.append(Violation(clause=cl, what='replayed behaviour still fails: ' + why,
                                                sig={'driver': 'est_replay.replay', 'clause': cl, 'cfg': rep['args']['cfg']}, replay=rep))
        return
    ec.replay_case(ctx, rep, list(t['prefixes']) + ALSO.get(ctx.pid, []))
