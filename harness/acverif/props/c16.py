"""C16 -- summary() and history() truthfully describe the fitted object."""
from . import carvecommon as cc
from . import estprops


def _hist(ctx):
    # history() clauses (C16_hist_*) are judged on the carver traces
    cc.design_runs(ctx, ['Inv_C16_hist'], thorough=cc.DESIGN_QUICK + ['MC_Carver_nan_thorough.cfg', 'MC_Carver_kruskal_thorough.cfg'])
    cc.carver_pipeline(ctx, 'C16_', n_random_quick=250, n_random_thorough=2500, exhaustive=(ctx.tier != 'quick'))


def run(ctx):
    estprops.run(ctx, extra=_hist)


def replay(ctx, rep):
    if rep.get('driver') == 'carve.feature_cases':
        cc.replay_case(ctx, rep, 'C16_')
    else:
        estprops.replay(ctx, rep)
