"""C12 -- MulticlassCarver equals one-vs-rest BinaryCarvers."""
from __future__ import annotations

from concurrent.futures import ProcessPoolExecutor

from .. import tlc
from ..core import Ctx, Violation, jhash

STRIP = ('meta', 'id')


def _work(seeds):
    from ..core import use_repo
    use_repo()
    from ..drivers import multiclass
    out = []
    for s in seeds:
        try:
            out.append(multiclass.fit_case(multiclass.random_spec(s), f'mc{s}'))
        except Exception:
            import traceback
            out.append({'harness_error': traceback.format_exc()[-1500:], 'seed': s})
    return out


def run(ctx: Ctx):
    ctx.rule = ('Each case fits one real MulticlassCarver and, for every class, an independent BinaryCarver built with the same constructor parameters '
                '(incl. min_freq_mod, dropna, output_dtype, max_n_mod, dev sample) and fresh values_orders on the indicator of that class; seeded random '
                'frames with 3-4 classes (int labels incl. 1/2/10 to exercise the string sort, str labels), 1-3 features of all kinds. TLC '
                '(MulticlassTrace.tla) sorts the class labels as strings, derives the expected set of columns f_c and compares it and every output column '
                'row by row (shared label table); the harness checks that raw columns are returned unchanged. Non-trivial: at least 2 created columns.')
    ctx.assumptions = ['the reference BinaryCarver receives exactly the MulticlassCarver constructor arguments']
    r = tlc.run_mc('MC_Multiclass', 'MC_Multiclass.cfg', timeout=600)
    ctx.add_design(r)
    if not r.ok:
        raise tlc.MachineryError(f'design counterexample in Multiclass.tla: {r.violated}')
    ctx.notes['design_invariants'] = ['Inv_C12', 'Inv_C12_FirstSkipped', 'Inv_C12_RawUntouched']
    n = 320 if ctx.tier == 'quick' else 2500
    base = ctx.seed * 1_000_003
    seeds = [base + i for i in range(n)]
    cases = []
    with ProcessPoolExecutor(max_workers=16) as ex:
        for part in ex.map(_work, [seeds[i::64] for i in range(64)]):
            cases.extend(part)
    for c in cases:
        if 'harness_error' in c:
            raise tlc.MachineryError(f'multiclass driver failed (seed {c["seed"]}): {c["harness_error"]}')
    jr = tlc.judge('MulticlassTrace', cases, strip=STRIP, shard_size=100)
    ctx.traces += len(cases)
    ctx.evaluations += len(cases) + sum(len(c['labels']) for c in cases)
    ctx.states += jr.distinct
    ctx.transitions += jr.generated
    outcomes, clause_counts = {}, {}
    for i, c in enumerate(cases):
        outcomes[c['outcome']] = outcomes.get(c['outcome'], 0) + 1
        if len(c['mccols']) >= 2:
            ctx.nontrivial.add(jhash([c['labels'], c['mccols'], c['mcout']]))
        for cl in jr.verdicts[i]:
            clause_counts[cl] = clause_counts.get(cl, 0) + 1
            if cl.startswith('C12_'):
                ctx.violations.append(Violation(
                    clause=cl, what=f'{c["id"]}: classes={["".join(map(chr, l)) for l in c["labels"]]} min_freq_mod={c["meta"]["min_freq_mod"]} '
                                    f'multiclass columns={c["mccols"]} binary kept per class={c["binkept"]} outcomes={c["outcome"]}/{c["binoutcome"]}: {jr.verdicts[i]}',
                    sig={'driver': 'multiclass.fit_case', 'clause': cl, 'min_freq_mod_given': c['meta']['min_freq_mod'] is not None},
                    replay=c['meta'], detail={'clauses': jr.verdicts[i]}))
    ctx.notes['fit_outcomes(0 ok,1 AssertionError,2 other)'] = outcomes
    ctx.notes['clause_counts'] = clause_counts
    for c in cases[:2]:
        ctx.add_sample({'id': c['id'], 'classes': [''.join(map(chr, l)) for l in c['labels']], 'mccols': c['mccols'], 'binkept': c['binkept']})


def replay(ctx: Ctx, rep: dict):
    from ..core import use_repo
    use_repo()
    from ..drivers import multiclass
    c = multiclass.fit_case(rep['args']['spec'], 'replay')
    jr = tlc.judge('MulticlassTrace', [c], strip=STRIP)
    ctx.traces += 1
    ctx.evaluations += 1
    for cl in jr.verdicts[0]:
        if cl.startswith('C12_'):
            ctx.violations.append(Violation(clause=cl, what=f'replayed case still fails: {jr.verdicts[0]}',
                                            sig={'driver': 'multiclass.fit_case', 'clause': cl, 'min_freq_mod_given': c['meta']['min_freq_mod'] is not None}, replay=rep))
