"""C14 -- selectors return the best-ranked, mutually uncorrelated features."""
from ..core import Ctx
from . import selcommon as sc


def run(ctx: Ctx):
    ctx.rule = ('Each case is one real ClassificationSelector / RegressionSelector.select on a seeded frame (30-60 rows; quantitative features: two latent '
                'factors, exact copies, strictly monotone transforms, noisy copies, discrete / tied, constant, NaN-heavy columns; qualitative features: '
                'binned latent, copies, noise; binary / 3-class / continuous targets) x n_best x thresh_corr x default / alternative measures and filters. '
                'The harness recomputes every measure (Kruskal-Wallis H from ranks, chi2 with Yates for 2x2, Tschuprow T, Cramer V, Pearson, Spearman via '
                'ranks) and every inter-feature association from numpy primitives; TLC (SelectorTrace.tla) judges the returned list: distinct inputs, '
                'decreasing association, at most n_best, pairwise association <= thresh_corr, every omitted feature has a stated reason, the own '
                'measure values equal the recomputation, inputs unchanged. spec -> code: every input of the TLC dump of Selector.tla is run through the real selection '
                'loop with a table-driven measure and a table-driven DataFrame.corr; the returned list must be a result the specification reaches. Non-trivial: at least 3 candidate features; distinct by content.')
    ctx.assumptions = ['numeric agreement is judged on values scaled by 1e6 with a tolerance of 3 units + 1e-5 relative (TLC cannot evaluate chi2 / H itself)',
                       'exact ties in the measure: any order among tied features accepted']
    sc.design(ctx)
    ctx.notes['design_invariants'] = ['Inv_C14', 'Termination']
    sc.replay_design(ctx)
    ctx.exhaustive = True
    ctx.exhaustive_domain = ('selection loop: every input of Selector.tla for 3 features x measure levels {undefined, 1, 2, 3} x pairwise associations '
                             '{below, at, above the threshold} x n_best 1..3' + ('' if ctx.tier == 'quick' else ' and for 4 features x levels {undefined, 1, 2} x '
                             'associations {below, above} x n_best 1..3') + ', replayed through the real selector with table-driven measure and correlation')
    sc.select_cases(ctx, ['C14_'], 1000, 5000)


def replay(ctx: Ctx, rep: dict):
    sc.replay_select(ctx, rep, ['C14_'])
