"""C19 -- see props/estprops.py (TABLE['C19']) and DESIGN.md section 6."""
from . import estprops


def run(ctx):
    estprops.run(ctx)


def replay(ctx, rep):
    estprops.replay(ctx, rep)
