"""C02 -- carved features respect max_n_mod, min_freq_mod and dev robustness."""
from ..core import Ctx
from . import carvecommon as cc


def run(ctx: Ctx):
    ctx.rule = ('Same executions as C01 (real carver fits on the enumerated small tables and on random frames); the rows of '
                'transform(X_train) / transform(X_dev) are logged as (label, y, input-was-missing) and TLC recounts labels, '
                'frequencies and mean-y order from the rows (independently of values_orders): clauses C02_max_n_mod, '
                'C02_min_freq_mod, C02_missing_values, C02_dev_label_set, C02_dev_min_freq_mod, C02_dev_rank_inversion, '
                'C02_grouping_bounds. Non-trivial: a kept feature with at least 2 output labels; distinct by (table, cfg).')
    ctx.assumptions = [
        'dev rank clause is the Loose reading: no strict inversion of mean y between train and dev',
        'frequencies compared exactly (n<=64 envelope)',
    ]
    cc.design_runs(ctx, ['Inv_C02'], thorough=cc.DESIGN_QUICK + ['MC_Carver_dev_thorough.cfg', 'MC_Carver_nan_thorough.cfg'])
    cc.carver_pipeline(ctx, 'C02_', nontrivial=lambda c, info: c['kept'] and len({r[0] for r in c['out_tr']} - {0}) >= 2)
    ctx.exhaustive = ctx.tier == 'thorough'
    ctx.exhaustive_domain = 'binary tables K<=3 cells 0..2 x configurations; quick samples it'


def replay(ctx: Ctx, rep: dict):
    cc.replay_case(ctx, rep, 'C02_')
