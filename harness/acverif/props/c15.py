"""C15 -- feature selection is invariant under re-encodings that keep the information."""
from .. import tlc
from ..core import Ctx, Violation, jhash
from . import selcommon as sc


def run(ctx: Ctx):
    ctx.rule = ('(1) paired runs: the frames of C14 are re-encoded (one quantitative feature negated / rescaled by 2, 0.5, 4; the categories of one qualitative '
                'feature renamed by an order-reversing bijection; rows permuted; columns permuted) and select is run again; TLC (ReencodeTrace.tla) requires the '
                'same returned list, in the same order. (2) frames containing an exact copy of the target or a strictly increasing affine image of it (as '
                'quantitative or qualitative feature): TLC (SelectorTrace.tla) requires it among the returned features. Non-trivial: every pair; distinct by content.')
    ctx.assumptions = ['exact ties in the measure may legitimately be ordered differently after a column permutation: such pairs are generated rarely (continuous noise)']
    sc.design(ctx)
    ctx.notes['design_invariants'] = ['Inv_C15_Top (the strictly best-ranked feature is returned)', 'the abstract measure table is unchanged by the re-encodings']
    n = 600 if ctx.tier == 'quick' else 2500
    base = ctx.seed * 1_000_003
    cases = sc.gen('reencode_case', [base + i for i in range(n)])
    jr = tlc.judge('ReencodeTrace', cases, strip=sc.STRIP, shard_size=200)
    ctx.traces += sum(1 + len(c['variants']) for c in cases)
    ctx.evaluations += sum(1 + len(c['variants']) for c in cases)
    ctx.states += jr.distinct
    ctx.transitions += jr.generated
    kinds = {}
    for i, c in enumerate(cases):
        ctx.nontrivial.add(jhash([c['ref'], [v['kept'] for v in c['variants']]]))
        for v in c['variants']:
            k = v['kind'].split('_')[0]
            kinds[k] = kinds.get(k, 0) + 1
        for cl in jr.verdicts[i]:
            if cl.startswith('C15_'):
                bad, sig = sc.reencode_sig(c, cl)
                ctx.violations.append(Violation(
                    clause=cl, what=f'{c["id"]} ({c["meta"]["task"]}, {c["meta"]["measures"]}): original selection {c["ref"]["kept"]}; after re-encoding: {bad[:3]}',
                    sig=sig, replay=c['meta']))
    ctx.notes['variants_per_kind'] = kinds
    sc.select_cases(ctx, ['C15_'], 800, 4000)


def replay(ctx: Ctx, rep: dict):
    sc.replay_select(ctx, rep, ['C15_'])
