"""C13 -- GroupedList stays a consistent ordered partition under any history.

1. design: TLC explores the complete reachable graph of GroupedList.tla over a small universe
   (invariants Inv_C13_*, action property Act_C13_NoLoss) and dumps every state; a state carries
   its incoming operation and source state, i.e. it is one transition;
2. spec -> code: every dumped transition is executed on the real class and compared;
3. code -> spec: seeded random histories over an 8-value universe are executed on the real class
   and judged step by step by TLC with GroupedListTrace.tla.
"""
from __future__ import annotations

import os
import shutil
from concurrent.futures import ProcessPoolExecutor

from .. import tlc, tlaval
from ..core import Ctx, Violation, jhash

UNIVERSE_BY_CFG = {'MC_GroupedList_quick.cfg': 4, 'MC_GroupedList_small.cfg': 3, 'MC_GroupedList_thorough.cfg': 5}


def _replay_chunk(args):
    universe, states = args
    from ..core import use_repo
    use_repo()
    from ..drivers import gl
    out = []
    for s in states:
        try:
            r = gl.replay_transition(universe, s)
        except Exception as e:   # harness failure, not a verdict
            r = {'fails': [], 'conf': [], 'error': f'{type(e).__name__}: {e}'}
        if r['fails'] or r['conf'] or r.get('error'):
            out.append((s, r))
    return len(states), out


def _hist_chunk(args):
    seeds, length = args
    from ..core import use_repo
    use_repo()
    from ..drivers import gl
    return [gl.random_history(s, length) for s in seeds]


def replay_graph(ctx: Ctx, cfg: str, workers: int = 16, timeout: int = 1800):
    universe = UNIVERSE_BY_CFG[cfg]
    scratch = tlc.scratch_dir()
    try:
        dump = os.path.join(scratch, 'graph')
        res = tlc.run_mc('GroupedList', cfg, dump=dump, scratch=scratch, timeout=timeout)
        ctx.add_design(res)
        if not res.ok:
            raise tlc.MachineryError(f'design violation in GroupedList.tla: {res.violated}: the model of '
                                     f'valid operations is itself inconsistent\n{res.stdout_tail}')
        states = list(tlaval.parse_dump(dump + '.dump'))
    finally:
        shutil.rmtree(scratch, ignore_errors=True)
    if len(states) != res.distinct:
        raise tlc.MachineryError(f'dump has {len(states)} states, TLC reported {res.distinct}')
    chunks = [(universe, states[i::workers * 4]) for i in range(workers * 4)]
    n = 0
    ops = {}
    for s in states:
        ops[s['lastOp']['op']] = ops.get(s['lastOp']['op'], 0) + 1
    with ProcessPoolExecutor(max_workers=workers) as ex:
        for cnt, bad in ex.map(_replay_chunk, chunks):
            n += cnt
            for s, r in bad:
                rep = {'driver': 'gl.replay_transition', 'args': {'universe': universe, 'state': _plain(s)}}
                if r.get('error'):
                    raise tlc.MachineryError(f'replayer failed: {r["error"]} on {s["lastOp"]}')
                for c in r['conf']:
                    ctx.nonconf(f'{c} op={s["lastOp"]["op"]}', sample=_plain(s['lastOp']))
                for c in r['fails']:
                    lo = s['lastOp']
                    ctx.violations.append(Violation(
                        clause=c,
                        what=f'{lo["op"]}{_plain(lo["args"])} from {_plain(lo["from"])}: expected '
                             f'order={_plain(s["order"])} content={_plain(s["content"])}, got {r.get("got")}'
                             + (f' obs={r.get("obs")}' if c.startswith('C13_obs') else ''),
                        sig={'driver': 'gl.replay_transition', 'op': lo['op'], 'clause': c,
                             'falsy_leader': _falsy_leader(universe, s),
                             'same_leader_member': lo['op'] == 'replace_group_leader' and lo['args'][0] == lo['args'][1]},
                        replay=rep))
    ctx.traces += n
    ctx.evaluations += n
    for s in states:
        if s['lastOp']['op'] not in ('init', 'copy'):
            ctx.nontrivial.add(jhash(_plain(s)))
    ctx.notes.setdefault('transitions_replayed_per_op', {}).update({f'U{universe}:{k}': v for k, v in sorted(ops.items())})
    for s in states[len(states) // 2: len(states) // 2 + 2]:
        ctx.add_sample({'kind': 'spec->code transition', 'universe': universe, 'state': _plain(s)})


def _falsy_leader(universe, s):
    from ..glvalues import Codec
    c = Codec(universe)
    return any(not c.dec(k) for k in s['order'])


def _plain(v):
    if isinstance(v, frozenset):
        return sorted(_plain(x) for x in v)
    if isinstance(v, (list, tuple)):
        return [_plain(x) for x in v]
    if isinstance(v, dict):
        return {str(k): _plain(x) for k, x in v.items()}
    return v


def judge_histories(ctx: Ctx, n_hist: int, length: int, workers: int = 16):
    seeds = [ctx.seed * 1_000_003 + i for i in range(n_hist)]
    chunks = [(seeds[i::workers], length) for i in range(workers)]
    cases = []
    with ProcessPoolExecutor(max_workers=workers) as ex:
        for part in ex.map(_hist_chunk, chunks):
            cases.extend(part)
    jr = tlc.judge('GroupedListTrace', cases, shard_size=max(50, n_hist // 16 + 1))
    ctx.traces += len(cases)
    ctx.evaluations += sum(len(c['events']) for c in cases)
    ctx.states += jr.distinct
    ctx.transitions += jr.generated
    opcount = {}
    for i, c in enumerate(cases):
        for e in c['events']:
            opcount[e['op']] = opcount.get(e['op'], 0) + 1
        if len(c['events']) >= 5:
            ctx.nontrivial.add(jhash([[e['op'], e['a']] for e in c['events']]))
        fails = jr.verdicts[i]
        for cl in fails:
            if cl.startswith('Drv_'):
                raise tlc.MachineryError(f'driver generated an invalid operation in {c["id"]}: {cl}')
            if cl.startswith('Conf_'):
                ctx.nonconf(f'{cl} in {c["id"]}')
                continue
            if cl in ('unique_leaders', 'keys_are_leaders', 'disjoint', 'nodup_members', 'leader_in_own'):
                continue   # detail of C13_wf
            last = c['events'][-1]
            ctx.violations.append(Violation(
                clause=cl,
                what=f'history {c["id"]} ({len(c["events"])} ops, last {last["op"]}{last["a"]}): clauses {fails}',
                sig={'driver': 'gl.random_history', 'clause': cl, 'falsy_leader': _hist_falsy(c),
                     'same_leader_member': any(e['op'] == 'replace_group_leader' and e['a'][0] == e['a'][1] for e in c['events'])},
                replay=c['meta'], detail={'clauses': fails}))
    ctx.notes['history_ops'] = dict(sorted(opcount.items()))
    if cases:
        c = cases[0]
        ctx.add_sample({'kind': 'code->spec history', 'id': c['id'],
                        'ops': [[e['op'], e['a']] for e in c['events'][:12]]}, limit=6)


def _hist_falsy(c):
    # code 5 is the integer 0 in the 8-value universe
    return any(5 in e['order'] for e in c['events'])


def selftest_binding(ctx: Ctx):
    """The trace spec must reject corrupted recordings (binding is demonstrated, not assumed)."""
    import copy
    from ..core import use_repo
    use_repo()
    from ..drivers import gl
    good = [gl.random_history(10_000 + i, 25) for i in range(6)]
    bad = []
    for i, c in enumerate(good):
        c2 = copy.deepcopy(c)
        evs = c2['events']
        k = min(len(evs) - 1, 3 + i)
        e = evs[k]
        kind = i % 3
        if kind == 0 and len(e['order']) >= 2:      # swap two leaders
            e['order'][0], e['order'][1] = e['order'][1], e['order'][0]
        elif kind == 1 and e['content']:            # drop a group's members
            e['content'][0][1] = e['content'][0][1][:-1]
        else:                                       # lie about contains()
            e['has'] = [x for x in e['has'][1:]] if e['has'] else [1]
        bad.append(c2)
    jr = tlc.judge('GroupedListTrace', good + bad)
    ok_good = all(jr.verdicts[i] == [] or all(x.startswith('Conf_') for x in jr.verdicts[i]) for i in range(len(good)))
    rejected = sum(1 for i in range(len(good), len(good) + len(bad)) if jr.verdicts[i])
    ctx.notes['binding_selftest'] = {'good_accepted': ok_good, 'corrupted_rejected': rejected, 'corrupted': len(bad)}
    return ok_good, rejected, len(bad)


def run(ctx: Ctx):
    ctx.rule = ('spec->code: every state of the TLC dump of GroupedList.tla is one transition '
                '(source state, operation, arguments, target state, observer answers) executed on the real class; '
                'code->spec: seeded random histories of valid operations over 8 values (str/int 0/float/"__NAN__", nan '
                'as observer argument) judged step by step by TLC. Non-trivial: a transition whose operation is not '
                'init/copy; a history of >= 5 operations; distinct by content hash.')
    ctx.assumptions = [
        'valid operations are those of the Valid* operators in specs/GL.tla (docstring preconditions)',
        'the float nan object is used as observer argument only, "__NAN__" is a full member of the universe',
        'member order inside a group is conformance-level (reported, not a violation)',
    ]
    if ctx.tier == 'quick':
        replay_graph(ctx, 'MC_GroupedList_quick.cfg')
        ctx.exhaustive = True
        ctx.exhaustive_domain = 'complete reachable graph of GroupedList.tla for |U|=4 (every transition replayed)'
        judge_histories(ctx, 320, 60)
    else:
        replay_graph(ctx, 'MC_GroupedList_quick.cfg')
        replay_graph(ctx, 'MC_GroupedList_thorough.cfg', timeout=3000)
        ctx.exhaustive = True
        ctx.exhaustive_domain = 'complete reachable graphs of GroupedList.tla for |U|=4 and |U|=5 (every transition replayed)'
        judge_histories(ctx, 3000, 120)
    selftest_binding(ctx)


def replay(ctx: Ctx, rep: dict):
    """Re-execute one stored violation."""
    from ..core import use_repo
    use_repo()
    from ..drivers import gl
    if rep['driver'] == 'gl.replay_transition':
        st = rep['args']['state']
        st = _unplain_state(st)
        r = gl.replay_transition(rep['args']['universe'], st)
        for c in r['fails']:
            ctx.violations.append(Violation(clause=c, what=f'replayed transition still fails: got {r.get("got")}',
                                            sig={'driver': rep['driver'], 'op': st['lastOp']['op'], 'clause': c,
                                                 'falsy_leader': _falsy_leader(rep['args']['universe'], st),
                                                 'same_leader_member': st['lastOp']['op'] == 'replace_group_leader' and st['lastOp']['args'][0] == st['lastOp']['args'][1]},
                                            replay=rep))
        ctx.traces += 1
        ctx.evaluations += 1
    else:
        c = gl.random_history(**rep['args'])
        jr = tlc.judge('GroupedListTrace', [c])
        for cl in jr.verdicts[0]:
            if not cl.startswith(('Conf_', 'Drv_')) and cl.startswith('C13'):
                ctx.violations.append(Violation(clause=cl, what=f'replayed history still fails: {jr.verdicts[0]}',
                                                sig={'driver': rep['driver'], 'clause': cl, 'falsy_leader': _hist_falsy(c),
                                                     'same_leader_member': False}, replay=rep))
        ctx.traces += 1
        ctx.evaluations += len(c['events'])


def _unplain_state(st):
    def fn(d):
        return {int(k): v for k, v in d.items()} if isinstance(d, dict) else d
    out = dict(st)
    out['content'] = fn(st['content'])
    lo = dict(st['lastOp'])
    fr = dict(lo['from'])
    fr['content'] = fn(fr['content'])
    lo['from'] = fr
    if lo['op'] in ('fromdict', 'update'):
        lo['args'] = [lo['args'][0], fn(lo['args'][1])]
    out['lastOp'] = lo
    obs = dict(st['obs'])
    obs['get'] = fn(obs['get'])
    obs['group'] = fn(obs['group'])
    out['obs'] = obs
    return out
