"""Shared pipeline of the selector checks (C14, C15)."""
from __future__ import annotations

from concurrent.futures import ProcessPoolExecutor

from .. import tlc
from ..core import Ctx, Violation, jhash

STRIP = ('meta', 'id')


def _work(args):
    fn, seeds = args
    from ..core import use_repo
    use_repo()
    from ..drivers import selector
    out = []
    for s in seeds:
        try:
            out.append(getattr(selector, fn)(s))
        except Exception:
            import traceback
            out.append({'harness_error': traceback.format_exc()[-1500:], 'seed': s})
    return out


def gen(fn, seeds):
    cases = []
    with ProcessPoolExecutor(max_workers=16) as ex:
        for part in ex.map(_work, [(fn, seeds[i::32]) for i in range(32)]):
            cases.extend(part)
    for c in cases:
        if 'harness_error' in c:
            raise tlc.MachineryError(f'selector driver failed (seed {c["seed"]}): {c["harness_error"]}')
    return cases


def design(ctx: Ctx):
    cfg = 'MC_Selector_quick.cfg' if ctx.tier == 'quick' else 'MC_Selector.cfg'
    r = tlc.run_mc('Selector', cfg, timeout=3000, coverage=(ctx.tier == 'quick'))
    ctx.add_design(r)
    if not r.ok:
        raise tlc.MachineryError(f'design counterexample in Selector.tla: {r.violated}\n{r.counterexample[-1:]}')


def _replay_work(items):
    import warnings
    from ..core import use_repo
    use_repo()
    from ..drivers import sel_replay
    with warnings.catch_warnings():
        warnings.simplefilter('ignore')
        try:
            return sel_replay.replay_chunk(items)
        except Exception:
            import traceback
            return [('harness_error', traceback.format_exc()[-1500:], None)]


def replay_design(ctx: Ctx):
    """spec -> code: every input (measure levels incl. undefined, inter-feature associations below / at / above
    the threshold, n_best) of the TLC dump of Selector.tla goes through the real selection loop (table-driven measure,
    table-driven DataFrame.corr under the library's own spearman filter); the returned list must be a result the
    specification reaches for that input."""
    import os
    import shutil
    from .. import tlaval
    from ..drivers import sel_replay
    cfgs = ['MC_Selector_replay.cfg'] if ctx.tier == 'quick' else ['MC_Selector_replay.cfg', 'MC_Selector_replay4.cfg']
    total = 0
    for cfg in cfgs:
        scratch = tlc.scratch_dir()
        try:
            r = tlc.run_mc('Selector', cfg, dump=os.path.join(scratch, 'g'), scratch=scratch, timeout=3000)
            ctx.add_design(r)
            if not r.ok:
                raise tlc.MachineryError(f'design counterexample in Selector.tla ({cfg}): {r.violated}')
            allowed = sel_replay.allowed_results(tlaval.parse_dump(os.path.join(scratch, 'g.dump')))
        finally:
            shutil.rmtree(scratch, ignore_errors=True)
        items = list(allowed.items())
        if not items:
            raise tlc.MachineryError(f'no finished state in the dump of Selector.tla ({cfg})')
        with ProcessPoolExecutor(max_workers=16) as ex:
            for part in ex.map(_replay_work, [items[i::64] for i in range(64)]):
                for key, got, want in part:
                    if key == 'harness_error':
                        raise tlc.MachineryError(f'selector replayer failed: {got}')
                    ctx.violations.append(Violation(
                        clause='C14_selection_not_a_result_of_the_specification',
                        what=f'measures={list(key[0])} (-1 undefined) associations={[list(r) for r in key[1]]} (threshold 5) n_best={key[2]}: '
                             f'the selector returned {list(got)}, Selector.tla allows {[list(w) for w in want]}',
                        sig={'driver': 'sel_replay.replay_input', 'clause': 'C14_selection_not_a_result_of_the_specification', 'task': 'table',
                             'measures': 'table', 'explained_by_zero_distance': False, 'default_regression_quantitative': False},
                        replay={'driver': 'sel_replay.replay_input', 'args': {'key': [list(key[0]), [list(r) for r in key[1]], key[2]],
                                                                             'allowed': [list(w) for w in want]}}))
        total += len(items)
        for key, _ in items:
            ctx.nontrivial.add(jhash(['sel_replay', key]))
    ctx.traces += total
    ctx.evaluations += total
    ctx.notes['design_inputs_replayed'] = total


def select_cases(ctx: Ctx, prefixes, n_quick, n_thorough):
    n = n_quick if ctx.tier == 'quick' else n_thorough
    base = ctx.seed * 1_000_003
    cases = gen('case_for', [base + i for i in range(n)])
    jr = tlc.judge('SelectorTrace', cases, strip=STRIP, shard_size=200)
    ctx.traces += len(cases)
    ctx.evaluations += len(cases)
    ctx.states += jr.distinct
    ctx.transitions += jr.generated
    tasks, clause_counts = {}, {}
    for i, c in enumerate(cases):
        k = f'{c["meta"]["task"]}/{c["meta"]["measures"]}'
        tasks[k] = tasks.get(k, 0) + 1
        if sum(len(g['feats']) for g in c['groups']) >= 3:
            ctx.nontrivial.add(jhash([c['mref'], c['a'], c['groups']]))
        info = jr.info.get(i, {})
        for cl in jr.verdicts[i]:
            clause_counts[cl] = clause_counts.get(cl, 0) + 1
            if cl.startswith(tuple(prefixes)):
                ctx.violations.append(Violation(
                    clause=cl, what=f'{c["id"]} ({c["meta"]["task"]}, {c["meta"]["measures"]} measures): selected={c["meta"]["selected"]} groups={c["groups"]} '
                                    f'measures(recomputed)={c["mref"]} measures(library)={c["mcode"]} must_include={c["must"]} {c["meta"]["exc"] or ""}',
                    sig={'driver': 'selector.case_for', 'clause': cl, 'task': c['meta']['task'], 'measures': c['meta']['measures'],
                         'explained_by_zero_distance': bool(info.get('zero_distance')) and c['meta']['default_regression_quantitative'],
                         'default_regression_quantitative': c['meta']['default_regression_quantitative']},
                    replay=c['meta'], detail={'clauses': jr.verdicts[i]}))
    ctx.notes.setdefault('cases_per_task', {}).update(tasks)
    ctx.notes.setdefault('clause_counts_all_properties', {}).update(clause_counts)
    for c in cases[:2]:
        ctx.add_sample({'id': c['id'], 'task': c['meta']['task'], 'selected': c['meta']['selected'], 'groups': c['groups'], 'mref': c['mref']})
    return cases, jr


def reencode_sig(c, cl):
    """signature of a C15 re-encoding violation (what the known findings F08c/d and F28 are matched on)"""
    bad = [(v['kind'], v['kept']) for v in c['variants'] if v['clause_kept'] == cl and v['kept'] != c['ref']['kept']]
    diff = set()
    for _, kept in bad:
        diff |= set(kept) ^ set(c['ref']['kept'])
    # F08d: the selections differ only by quantitative features whose recomputed correlation distance is ~0 (the library treats an
    # exact 0.0 as undefined, and whether the floating-point value is exactly 0.0 depends on the order of the rows / columns)
    zero_only = bool(diff) and all(0 < f <= len(c['tie_m']) and c['tie_g'][f - 1] == 1 and 0 <= c['tie_m'][f - 1] <= 3 for f in diff)
    sig = {'driver': 'selector.reencode_case', 'clause': cl, 'task': c['meta']['task'], 'measures': c['meta']['measures'],
           'default_regression_quantitative': c['meta']['default_regression_quantitative'],
           'differs_only_by_zero_distance_features': zero_only and c['meta']['default_regression_quantitative'],
           # F28: several measures evaluated together, the selections differ only by features that have an information-identical
           # twin (exactly tied under one of the measures)
           'differs_only_by_twins_under_several_measures': bool(diff) and c['meta']['measures'] == 'multi'
           and all(f in (c.get('twins') or []) for f in diff),
           # F29: several measures evaluated together, the selections differ only by features whose correlation ratio is 0 up to rounding
           # (R_measure = sqrt(R2) is NaN or 1e-9 depending on the sign of the rounding residue; NaN excludes the feature under every measure)
           'differs_only_by_features_with_zero_correlation_ratio': bool(diff) and c['meta']['measures'] == 'multi'
           and all(f in (c.get('zero_m2') or []) for f in diff)}
    return bad, sig


def replay_select(ctx: Ctx, rep: dict, prefixes):
    from ..core import use_repo
    use_repo()
    from ..drivers import selector
    if rep['driver'] == 'sel_replay.replay_input':
        from ..drivers import sel_replay
        k = rep['args']['key']
        key = (tuple(k[0]), tuple(tuple(r) for r in k[1]), k[2])
        got = sel_replay.replay_input(key)
        ctx.traces += 1
        ctx.evaluations += 1
        if list(got) not in [list(w) for w in rep['args']['allowed']]:
            ctx.violations.append(Violation(clause='C14_selection_not_a_result_of_the_specification', what=f'replayed input still returns {list(got)}',
                                            sig={'driver': rep['driver'], 'clause': 'C14_selection_not_a_result_of_the_specification', 'task': 'table',
                                                 'measures': 'table', 'explained_by_zero_distance': False, 'default_regression_quantitative': False}, replay=rep))
        return
    if rep['driver'] == 'selector.reencode_case':
        c = selector.reencode_case(rep['args']['seed'])
        jr = tlc.judge('ReencodeTrace', [c], strip=STRIP)
    else:
        c = selector.case_for(rep['args']['seed'])
        jr = tlc.judge('SelectorTrace', [c], strip=STRIP)
    ctx.traces += 1
    ctx.evaluations += 1
    for cl in jr.verdicts[0]:
        if cl.startswith(tuple(prefixes)) and rep['driver'] == 'selector.reencode_case':
            ctx.violations.append(Violation(clause=cl, what=f'replayed case still fails: {jr.verdicts[0]}', sig=reencode_sig(c, cl)[1], replay=rep))
        elif cl.startswith(tuple(prefixes)):
            ctx.violations.append(Violation(clause=cl, what=f'replayed case still fails: {jr.verdicts[0]}',
                                            sig={'driver': rep['driver'], 'clause': cl, 'task': c['meta']['task'], 'measures': c['meta']['measures'],
                                                 'explained_by_zero_distance': bool(jr.info.get(0, {}).get('zero_distance')) and c['meta']['default_regression_quantitative'],
                                                 'default_regression_quantitative': c['meta']['default_regression_quantitative']}, replay=rep))
