"""Shared pipeline of the base-discretization checks (C09, C03)."""
from __future__ import annotations

from concurrent.futures import ProcessPoolExecutor

from .. import tlc
from ..core import Ctx, Violation, jhash

STRIP = ('meta', 'id', 'skip')


def _work(args):
    kind, items = args
    from ..core import use_repo
    use_repo()
    from ..drivers import base
    out = []
    for tag, item in items:
        spec = base.random_base_spec(item) if kind == 'random' else item
        try:
            cases, info = base.fit_cases(spec, tag)
        except Exception:
            import traceback
            out.append((tag, spec, None, {'harness_error': traceback.format_exc()[-1500:]}))
            continue
        out.append((tag, spec, cases, info))
    return out


def run_specs(kind, items, workers=16):
    chunks = [(kind, items[i::workers * 4]) for i in range(workers * 4) if items[i::workers * 4]]
    res = []
    with ProcessPoolExecutor(max_workers=workers) as ex:
        for part in ex.map(_work, chunks):
            res.extend(part)
    return res


def judge(results):
    flat, skipped, outcomes = [], {}, {}
    for tag, spec, cases, info in results:
        if cases is None:
            raise tlc.MachineryError(f'base driver failed on {tag}: {info.get("harness_error")}')
        outcomes[info['outcome']] = outcomes.get(info['outcome'], 0) + 1
        for c in cases:
            if c.get('skip'):
                skipped[c['skip']] = skipped.get(c['skip'], 0) + 1
            else:
                flat.append(c)
    jr = tlc.judge('BaseTrace', flat, strip=STRIP, shard_size=600)
    return flat, jr, skipped, outcomes


def pipeline(ctx: Ctx, prefixes, nontrivial=lambda c: True):
    from ..drivers import base
    qs, qtotal = base.exhaustive_quanti(ctx.tier, ctx.seed)
    ls, ltotal = base.exhaustive_quali(ctx.tier, ctx.seed)
    rl = base.runlength_quanti(ctx.tier, ctx.seed, 600 if ctx.tier == 'quick' else 6000)
    items = [(f'exq{i}', s) for i, s in enumerate(qs)] + [(f'exl{i}', s) for i, s in enumerate(ls)] + \
            [(f'rl{i}', s) for i, s in enumerate(rl)]
    results = run_specs('spec', items)
    nrand = 500 if ctx.tier == 'quick' else 4000
    b = ctx.seed * 1_000_003
    results += run_specs('random', [(f'rnd{b + i}', b + i) for i in range(nrand)])
    flat, jr, skipped, outcomes = judge(results)
    ctx.traces += len(flat)
    ctx.evaluations += len(results)
    ctx.states += jr.distinct
    ctx.transitions += jr.generated
    ctx.notes.update({'fits': len(results), 'feature_cases_judged': len(flat), 'cases_skipped': skipped,
                      'fit_outcomes(0 ok,1 AssertionError,2 other)': outcomes,
                      'enumerated_domain_size': qtotal + ltotal})
    kinds, clause_counts, merges = {}, {}, 0
    for i, c in enumerate(flat):
        kinds[c['kind']] = kinds.get(c['kind'], 0) + 1
        merges += len(c['events'])
        if nontrivial(c):
            ctx.nontrivial.add(jhash({k: c[k] for k in ('kind', 'df', 'n', 's', 'mf', 'lendf', 'nnan')}))
        info = jr.info.get(i, {})
        for cl in jr.verdicts[i]:
            clause_counts[cl] = clause_counts.get(cl, 0) + 1
            if cl.startswith('Conf_'):
                ctx.nonconf(f'{cl} in {c["id"]} ({c["meta"]["cls"]})', sample={k: c[k] for k in ('kind', 'df', 'n', 'mf', 'lendf', 'bounds', 'groups', 'events')})
            elif cl.startswith(tuple(prefixes)):
                ctx.violations.append(Violation(
                    clause=cl,
                    what=f'{c["id"]} ({c["meta"]["cls"]}, {c["kind"]}): min_freq={c["mf"]} N={c["lendf"]} sample={c["df"] or c["n"]} '
                         f'missing={c["nnan"]} -> boundaries={c["bounds"]} groups={c["groups"]} default={c["dflt"]} order={c["order"]}: {jr.verdicts[i]}',
                    sig={'driver': 'base.fit_cases', 'clause': cl, 'cls': c['meta']['cls'], 'kind': c['kind'],
                         'q_rounds_down': bool(info.get('q_rounds_down'))},
                    replay=c['meta'], detail={'clauses': jr.verdicts[i]}))
    ctx.notes['cases_per_kind'] = kinds
    ctx.notes['merge_decisions_observed'] = merges
    ctx.notes['clause_counts_all_properties'] = clause_counts
    for c in flat[:1] + flat[len(flat) // 2: len(flat) // 2 + 1] + flat[-1:]:
        ctx.add_sample({k: c[k] for k in ('id', 'kind', 'mf', 'lendf', 'df', 'n', 'bounds', 'groups', 'dflt', 'order', 'events')})
    return flat, jr


def replay_case(ctx: Ctx, rep: dict, prefixes):
    from ..core import use_repo
    use_repo()
    from ..drivers import base
    cases, info = base.fit_cases(rep['args']['spec'], 'replay')
    cases = [c for c in cases if not c.get('skip') and c['meta']['feature'] == rep.get('feature')]
    jr = tlc.judge('BaseTrace', cases, strip=STRIP)
    ctx.traces += len(cases)
    ctx.evaluations += 1
    for i, c in enumerate(cases):
        for cl in jr.verdicts[i]:
            if cl.startswith(tuple(prefixes)):
                ctx.violations.append(Violation(clause=cl, what=f'replayed case still fails: {jr.verdicts[i]}',
                                                sig={'driver': 'base.fit_cases', 'clause': cl, 'cls': c['meta']['cls'], 'kind': c['kind'],
                                                     'q_rounds_down': bool(jr.info.get(i, {}).get('q_rounds_down'))}, replay=rep))
