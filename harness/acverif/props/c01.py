"""C01 -- carvers pick the most target-associated viable ordered grouping."""
from ..core import Ctx
from . import carvecommon as cc


def run(ctx: Ctx):
    ctx.rule = ('Each case is one feature of one real BinaryCarver/ContinuousCarver fit: observed base table (from the '
                'carver\'s own internal Discretizer), history rows, fitted grouping; TLC recomputes every candidate '
                'grouping with exact measures (CarverOps.tla) and judges C01_opt / C01_drop. Enumerated domain: every '
                'binary table with K<=3 buckets and 0..2 rows per class and cell (K=4, 0..1 in thorough) and every '
                'continuous table with K<=3, <=2 rows per cell, y in 0..2, each as quantitative+ordinal+categorical '
                'column x max_n_mod x measure x threshold x dropna x missing-value cell (quick: seeded sample of it); '
                'plus seeded random frames n<=64 with tie-biased rates. Non-trivial: at least 2 Strict-viable '
                'stage-1 candidates (counted by TLC); distinct by (table, configuration).')
    ctx.assumptions = [
        'rates/frequencies compared exactly; float comparisons of the library agree inside the n<=64 envelope (DESIGN 4.2)',
        'measure "better" means better by a relative 1e-9 in exact arithmetic; exact ties accept any arg-max',
        'two-sided viability: violation only if outside Loose or beaten by a Strict-viable candidate',
    ]
    cc.design_runs(ctx, ['Inv_C01_opt', 'Inv_C01_drop'])
    cc.carver_pipeline(ctx, 'C01_', nontrivial=lambda c, info: info.get('nstrict', 0) >= 2)
    ctx.exhaustive = ctx.tier == 'thorough'
    ctx.exhaustive_domain = 'binary tables K<=3 cells 0..2 x configurations (see rule); quick samples it'


def replay(ctx: Ctx, rep: dict):
    cc.replay_case(ctx, rep, 'C01_')
