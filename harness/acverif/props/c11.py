"""C11 -- carving is invariant under information-preserving re-encodings."""
from __future__ import annotations

from concurrent.futures import ProcessPoolExecutor

from .. import tlc
from ..core import Ctx, Violation, jhash

STRIP = ('meta', 'id')


def _work(seeds):
    from ..core import use_repo
    use_repo()
    from ..drivers import reencode
    out = []
    for s in seeds:
        try:
            out.append(reencode.case_for(s))
        except Exception:
            import traceback
            out.append({'harness_error': traceback.format_exc()[-1500:], 'seed': s})
    return out


def run(ctx: Ctx):
    ctx.rule = ('Each case fits a real carver (Binary / Continuous / Multiclass, 1-3 features of all kinds, optional dev sample) on a seeded random sample '
                'and on its re-encodings: a row permutation (index travelling with the rows), an index relabelling (offset / shuffled ints / strings), '
                'two exact affine maps a*x+b of the quantitative features (a in {0.25,0.5,2,4,8,1024}, exactness checked with fractions.Fraction), a '
                'renaming of categories by a common prefix (keeps string order; ordinal values renamed with their ranking). TLC (ReencodeTrace.tla) checks '
                'that the abstract input (ranks per row) is unchanged by the re-encoding, that the kept sets are equal and that the row partitions induced '
                'by transform are equal as equivalence relations. Non-trivial: at least one kept feature; distinct by content.')
    ctx.assumptions = ['bijections that do not preserve the string order of categories are outside the statement and are not generated']
    cfg = 'MC_BaseStage_quanti_quick.cfg' if ctx.tier == 'quick' else 'MC_BaseStage_quanti.cfg'
    r = tlc.run_mc('MC_BaseStage', cfg, timeout=3000, coverage=False)
    ctx.add_design(r)
    if not r.ok:
        raise tlc.MachineryError(f'design counterexample in BaseStage.tla ({cfg}): {r.violated}\n{r.counterexample[-1:]}')
    ctx.notes['design_invariants'] = ['Inv_C11_Quantiles (the quantile search commutes with strictly increasing re-encodings); the carving model '
                                      'Carver.tla only sees counts per ordered bucket, i.e. is re-encoding invariant by construction']
    n = 600 if ctx.tier == 'quick' else 2500
    base = ctx.seed * 1_000_003
    seeds = [base + i for i in range(n)]
    cases = []
    with ProcessPoolExecutor(max_workers=16) as ex:
        for part in ex.map(_work, [seeds[i::64] for i in range(64)]):
            cases.extend(part)
    for c in cases:
        if 'harness_error' in c:
            raise tlc.MachineryError(f'reencode driver failed (seed {c["seed"]}): {c["harness_error"]}')
    jr = tlc.judge('ReencodeTrace', cases, strip=STRIP, shard_size=100)
    ctx.traces += sum(1 + len(c['variants']) for c in cases)
    ctx.evaluations += sum(1 + len(c['variants']) for c in cases)
    ctx.states += jr.distinct
    ctx.transitions += jr.generated
    kinds = {}
    for i, c in enumerate(cases):
        if c['ref']['kept']:
            ctx.nontrivial.add(jhash([c['ref'], [v['kind'] for v in c['variants']]]))
        for v in c['variants']:
            k = v['kind'].split('_')[0]
            kinds[k] = kinds.get(k, 0) + 1
        for cl in jr.verdicts[i]:
            if cl.startswith('Drv_'):
                raise tlc.MachineryError(f'{cl} in {c["id"]}: a re-encoding changed the abstract input')
            if cl.startswith('C11_'):
                bad = [v['kind'] for v in c['variants'] if v['kept'] != c['ref']['kept'] or v['parts'] != c['ref']['parts']]
                ctx.violations.append(Violation(
                    clause=cl, what=f'{c["id"]} ({c["meta"]["cls"]}): original kept {c["ref"]["kept"]}; deviating re-encodings: {bad}',
                    sig={'driver': 'reencode.case_for', 'clause': cl, 'cls': c['meta']['cls']}, replay=c['meta']))
    ctx.notes['variants_per_kind'] = kinds
    for c in cases[:2]:
        ctx.add_sample({'id': c['id'], 'class': c['meta']['cls'], 'kept': c['ref']['kept'], 'variants': c['meta']['variant_kinds']})


def replay(ctx: Ctx, rep: dict):
    from ..core import use_repo
    use_repo()
    from ..drivers import reencode
    c = reencode.case_for(rep['args']['seed'])
    jr = tlc.judge('ReencodeTrace', [c], strip=STRIP)
    ctx.traces += 1
    ctx.evaluations += 1
    for cl in jr.verdicts[0]:
        if cl.startswith('C11_'):
            ctx.violations.append(Violation(clause=cl, what=f'replayed case still fails: {jr.verdicts[0]}',
                                            sig={'driver': 'reencode.case_for', 'clause': cl, 'cls': c['meta']['cls']}, replay=rep))
