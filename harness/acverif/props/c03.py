"""C03 -- grouping preserves each feature's order (contiguity, monotone transform)."""
from ..core import Ctx
from . import basecommon as bc
from . import c09
from . import carvecommon as cc
from . import estcommon as ec
from . import estprops


def run(ctx: Ctx):
    ctx.rule = ('Three bindings. (1) base stage: the fits of C09 (enumerated multisets / count vectors, run-length and random samples); every observed '
                'rare-modality merge must join neighbours, every fitted group must be an interval of the boundary order / a contiguous run of the user '
                'ranking, categorical modalities must be in training target-rate order (BaseTrace.tla). (2) carving: real carver fits (enumerated small '
                'tables + random frames); every fitted group is a run of the base modalities observed from the internal Discretizer of the carver '
                '(CarverTrace.tla). (3) transform: histories fit -> transform(train) -> transform(sweep frame: every boundary, its nextafter neighbours, '
                'midpoints, below / above, +-1.7e308; every ordinal value) on carvers and discretizers with float labels; TLC checks that outputs are '
                'non-decreasing in the value / in the ordinal rank and equal the index of the first boundary >= x (EstimatorTrace.tla). '
                'Non-trivial: every judged feature / history; distinct by content hash.')
    ctx.assumptions = ['finite probes only (the property speaks of the real line)',
                       'order-isomorphic rank codes stand for the real numbers']
    c09.design(ctx)
    cc.design_runs(ctx, ['Inv_C03'], thorough=cc.DESIGN_QUICK + ['MC_Carver_thorough.cfg'])
    estprops.design(ctx)
    ctx.notes['design_invariants'] = ['Inv_C03_Runs (BaseStage)', 'Inv_C03 (Carver)', 'Inv_C03_Monotone (Estimator)']
    bc.pipeline(ctx, ['C03_'])
    cc.carver_pipeline(ctx, 'C03_', n_random_quick=300, n_random_thorough=2500, exhaustive=(ctx.tier != 'quick'))
    ec.run_kind(ctx, 'c03', ['C03_'], 220, 2000)


def replay(ctx: Ctx, rep: dict):
    d = rep.get('driver')
    if d == 'base.fit_cases':
        bc.replay_case(ctx, rep, ['C03_'])
    elif d == 'carve.feature_cases':
        cc.replay_case(ctx, rep, 'C03_')
    else:
        ec.replay_case(ctx, rep, ['C03_'])
