"""C18 -- ChainedDiscretizer merges rare values only along the supplied hierarchy."""
from __future__ import annotations

import contextlib
import io
from concurrent.futures import ProcessPoolExecutor

from .. import tlc
from ..core import Ctx, Violation, jhash

STRIP = ('meta', 'id', 'skip')


def _work(seeds):
    from ..core import use_repo
    use_repo()
    from ..drivers import chained
    out = []
    for s in seeds:
        try:
            with contextlib.redirect_stdout(io.StringIO()):     # the library prints when it drops unknown values
                out.append(chained.fit_case(chained.random_spec(s), f'ch{s}'))
        except Exception:
            import traceback
            out.append({'harness_error': traceback.format_exc()[-1500:], 'seed': s})
    return out


def _replay_chunk(states):
    import warnings
    from ..core import use_repo
    use_repo()
    from ..drivers import chained
    out = []
    with warnings.catch_warnings():
        warnings.simplefilter('ignore')
        for st in states:
            try:
                fails = chained.replay_state(st)
            except Exception:
                import traceback
                return [('harness_error', traceback.format_exc()[-1500:], st)]
            out.extend((cl, why, st) for cl, why in fails)
    return out


def replay_graph(ctx: Ctx, cfg: str):
    """spec -> code: every finished state of Chained.tla (hierarchy, counts, missing rows, threshold, final
    leaders) is rebuilt as a real sample and fitted; the real leaders and outputs must be the specification's."""
    import json
    import os
    import shutil
    from .. import tlaval
    scratch = tlc.scratch_dir()
    try:
        r = tlc.run_mc('MC_Chained', cfg, dump=os.path.join(scratch, 'g'), scratch=scratch, timeout=3000, coverage=(ctx.tier == 'quick'))
        ctx.add_design(r)
        if not r.ok:
            raise tlc.MachineryError(f'design counterexample in Chained.tla: {r.violated}\n{r.counterexample[-1:]}')
        seen = {}
        for st in tlaval.parse_dump(os.path.join(scratch, 'g.dump')):
            if st['level'] > max(st['tree']['lvl']):
                seen[json.dumps(st, sort_keys=True)] = st
    finally:
        shutil.rmtree(scratch, ignore_errors=True)
    fin = list(seen.values())
    if not fin:
        raise tlc.MachineryError('no finished state in the dump of Chained.tla')
    with ProcessPoolExecutor(max_workers=16) as ex:
        for part in ex.map(_replay_chunk, [fin[i::64] for i in range(64)]):
            for cl, why, st in part:
                if cl == 'harness_error':
                    raise tlc.MachineryError(f'chained replayer failed on {st}: {why}')
                ctx.violations.append(Violation(
                    clause=cl, what=f'state of Chained.tla tree={st["tree"]} cnt={st["cnt"]} N={st["n"]} min_freq={st["mf"]}: {why}',
                    sig={'driver': 'chained.replay_state', 'clause': cl, 'policy': 'raise', 'nunknown': 0},
                    replay={'driver': 'chained.replay_state', 'args': {'state': st}}))
    ctx.traces += len(fin)
    ctx.evaluations += len(fin)
    for st in fin:
        if any(l != i + 1 for i, l in enumerate(st['leader'])):
            ctx.nontrivial.add(jhash(['replay', st['tree']['par'], st['cnt'], st['mf'], st['n']]))
    ctx.notes['finished_states_replayed'] = len(fin)
    ctx.add_sample({'kind': 'spec->code state', 'state': fin[len(fin) // 2]})


def run(ctx: Ctx):
    ctx.rule = ('Each case is one real ChainedDiscretizer fit + transform on a seeded random hierarchy (1-3 levels, uneven fan-out, groups left out of '
                'the next level, never-observed members, intermediate names observed directly, numeric leaves given as int / float, missing rows, 0-2 '
                'unknown values) x min_freq x unknown_handling; TLC (ChainedTrace.tla) checks on the observed values_orders: every hierarchy value kept, '
                'leader is the value itself or an ancestor, first-level value own modality iff frequent, rare non-root groups merged further up, unknown '
                'values refused / merged with missing values, transform outputs the leader, no merge beyond the first frequent ancestor; conformance: leaders = FinalLeader of ChainedOps.tla. '
                'spec -> code: every finished state of the TLC dump of Chained.tla is rebuilt as a real hierarchy + sample, fitted, and the real leaders / outputs compared. '
                'Non-trivial: a fit with at least one merge; distinct by (hierarchy, counts, threshold).')
    ctx.assumptions = ['frequencies compared exactly (n<=60)', 'the first level of chained_orders defines the known values']
    cfg = 'MC_Chained_quick.cfg' if ctx.tier == 'quick' else 'MC_Chained.cfg'
    replay_graph(ctx, cfg)
    ctx.exhaustive = True
    ctx.exhaustive_domain = ('every finished state of Chained.tla over the 6 hierarchies of MC_Chained.tla x counts 0..%d per node x {0, 2} missing rows x 3 '
                             'thresholds, replayed into the real class' % (2 if ctx.tier == 'quick' else 3))
    ctx.notes['design_invariants'] = ['Inv_C18_Along', 'Inv_C18_RowsKept', 'Inv_C18_Final', 'Termination']
    n = 1500 if ctx.tier == 'quick' else 15000
    base = ctx.seed * 1_000_003
    seeds = [base + i for i in range(n)]
    cases = []
    with ProcessPoolExecutor(max_workers=16) as ex:
        for part in ex.map(_work, [seeds[i::64] for i in range(64)]):
            cases.extend(part)
    for c in cases:
        if 'harness_error' in c:
            raise tlc.MachineryError(f'chained driver failed (seed {c["seed"]}): {c["harness_error"]}')
    judged = [c for c in cases if not c.get('skip')]
    jr = tlc.judge('ChainedTrace', judged, strip=STRIP, shard_size=600)
    ctx.traces += len(judged)
    ctx.evaluations += len(cases)
    ctx.states += jr.distinct
    ctx.transitions += jr.generated
    ctx.notes['skipped_feature_removed'] = len(cases) - len(judged)
    outcomes, clause_counts = {}, {}
    for i, c in enumerate(judged):
        outcomes[c['outcome']] = outcomes.get(c['outcome'], 0) + 1
        if any(c['leader'][v] not in (v + 1, 0) for v in range(len(c['leader']))):
            ctx.nontrivial.add(jhash([c['par'], c['cnt'], c['mf'], c['n']]))
        for cl in jr.verdicts[i]:
            clause_counts[cl] = clause_counts.get(cl, 0) + 1
            if cl.startswith('Conf_'):
                ctx.nonconf(f'{cl} in {c["id"]}', sample={k: c[k] for k in ('par', 'lvl', 'cnt', 'n', 'mf', 'leader')})
            elif cl.startswith('C18_'):
                ctx.violations.append(Violation(
                    clause=cl, what=f'{c["id"]}: par={c["par"]} lvl={c["lvl"]} cnt={c["cnt"]} N={c["n"]} min_freq={c["mf"]} policy={c["policy"]} '
                                    f'unknown={c["nunknown"]} -> outcome={c["outcome"]} leaders={c["leader"]} {c["meta"].get("exc")}: {jr.verdicts[i]}',
                    sig={'driver': 'chained.fit_case', 'clause': cl, 'policy': c['policy'], 'nunknown': c['nunknown']},
                    replay=c['meta'], detail={'clauses': jr.verdicts[i]}))
    ctx.notes['fit_outcomes(0 ok,1 AssertionError,2 other)'] = outcomes
    ctx.notes['clause_counts'] = clause_counts
    for c in judged[:2]:
        ctx.add_sample({k: c[k] for k in ('id', 'par', 'lvl', 'cnt', 'n', 'mf', 'policy', 'nunknown', 'leader', 'outcome')})


def replay(ctx: Ctx, rep: dict):
    from ..core import use_repo
    use_repo()
    from ..drivers import chained
    if rep.get('driver') == 'chained.replay_state':
        st = rep['args']['state']
        for cl, why in chained.replay_state(st):
            ctx.violations.append(Violation(clause=cl, what=f'replayed state still fails: {why}',
                                            sig={'driver': 'chained.replay_state', 'clause': cl, 'policy': 'raise', 'nunknown': 0}, replay=rep))
        ctx.traces += 1
        ctx.evaluations += 1
        return
    with contextlib.redirect_stdout(io.StringIO()):
        c = chained.fit_case(rep['args']['spec'], 'replay')
    if c.get('skip'):
        return
    jr = tlc.judge('ChainedTrace', [c], strip=STRIP)
    ctx.traces += 1
    ctx.evaluations += 1
    for cl in jr.verdicts[0]:
        if cl.startswith('C18_'):
            ctx.violations.append(Violation(clause=cl, what=f'replayed case still fails: {jr.verdicts[0]}',
                                            sig={'driver': 'chained.fit_case', 'clause': cl, 'policy': c['policy'], 'nunknown': c['nunknown']}, replay=rep))
