"""C09 -- base discretization honours min_freq and keeps its granularity."""
from .. import tlc
from ..core import Ctx
from . import basecommon as bc


def design(ctx: Ctx):
    cfgs = ['MC_BaseStage_quanti_quick.cfg', 'MC_BaseStage_ordinal_quick.cfg'] if ctx.tier == 'quick' else \
           ['MC_BaseStage_quanti.cfg', 'MC_BaseStage_ordinal.cfg']
    for cfg in cfgs:
        r = tlc.run_mc('MC_BaseStage', cfg, timeout=3000, coverage=(ctx.tier == 'quick'))
        ctx.add_design(r)
        if not r.ok:
            raise tlc.MachineryError(f'design counterexample in BaseStage.tla ({cfg}): {r.violated}\n{r.counterexample[:1]}\n{r.counterexample[-1:]}')
    # known finding F10 lives at design level: outside its region the invariant holds (runs above); inside it
    # a tiny witness run must still find the counterexample, otherwise the finding has disappeared
    w = tlc.run_mc('MC_BaseStage', 'MC_BaseStage_witness.cfg', timeout=600, coverage=False)
    ctx.notes['F10_design_witness'] = {'violated': w.violated, 'state': w.counterexample[-1:] if w.violated else None}
    if w.violated != 'Inv_C09_Q_FrequentStrict':
        import sys
        print('NOTE property=C09: the design witness of known finding F10 no longer violates Inv_C09_Q_FrequentStrict', file=sys.stderr)


def run(ctx: Ctx):
    ctx.rule = ('Each case is one feature of one real fit of ContinuousDiscretizer / QuantitativeDiscretizer / OrdinalDiscretizer / '
                'CategoricalDiscretizer / QualitativeDiscretizer / Discretizer: the sorted training sample (ranks), the fitted values_orders and '
                'every rare-modality merge decision (observed by wrapping find_common_modalities / find_closest_modality); TLC (BaseTrace.tla) checks '
                'the C09 bounds on the observed result and, as conformance, equality with the exact model of the quantile recursion and of the merge '
                'loop (BaseOps.tla). Enumerated domain: every multiset of size <= 6 (8 thorough) over 5 values x missing count {0,1,3} x 9 thresholds '
                '(incl. non-integer 1/min_freq), every count vector K<=4 counts 0..3 for ordinal / categorical features x 3 thresholds (quick: seeded '
                'sample), run-length samples N<=60, random specs n<=64. Non-trivial: every judged feature; distinct by (sample, threshold).')
    ctx.assumptions = ['count/N >= min_freq compared exactly (n<=64 envelope, thresholds p/q with small p, q)',
                       'the 2.5*min_freq mass bound and the frequent-value clause use min_freq itself, not 1/round(1/min_freq)']
    design(ctx)
    bc.pipeline(ctx, ['C09_'])
    ctx.exhaustive = ctx.tier == 'thorough'
    ctx.exhaustive_domain = 'multisets of size <= 8 over 5 values x missing {0,1,3} x 9 thresholds; count vectors K<=4, 0..3'


def replay(ctx: Ctx, rep: dict):
    bc.replay_case(ctx, rep, ['C09_'])
