"""Shared pipeline of the estimator life-cycle checks (C04-C08, C16, C17, C19)."""
from __future__ import annotations

from concurrent.futures import ProcessPoolExecutor

from .. import tlc
from ..core import Ctx, Violation, jhash

STRIP = ('meta', 'id', 'raw_exc', 'ops')


def _work(args):
    kind, seeds = args
    from ..core import use_repo
    use_repo()
    from ..drivers import est_gen
    out = []
    for s in seeds:
        try:
            out.append(est_gen.gen_case(kind, s))
        except Exception:
            import traceback
            out.append({'harness_error': traceback.format_exc()[-2000:], 'seed': s, 'kind': kind})
    return out


def gen_cases(kind, seeds, workers=16):
    chunks = [(kind, seeds[i::workers * 2]) for i in range(workers * 2) if seeds[i::workers * 2]]
    cases = []
    with ProcessPoolExecutor(max_workers=workers) as ex:
        for part in ex.map(_work, chunks):
            cases.extend(part)
    for c in cases:
        if 'harness_error' in c:
            raise tlc.MachineryError(f'estimator driver failed (kind={c["kind"]} seed={c["seed"]}):\n{c["harness_error"]}')
    return cases


def run_kind(ctx: Ctx, kind: str, prefixes, n_quick: int, n_thorough: int, extra_sig=None, nontrivial=None):
    n = n_quick if ctx.tier == 'quick' else n_thorough
    base = ctx.seed * 1_000_003
    seeds = [base + i for i in range(n)]
    cases = gen_cases(kind, seeds)
    jr = tlc.judge('EstimatorTrace', cases, strip=STRIP, shard_size=400)
    ctx.traces += len(cases)
    ctx.evaluations += sum(len(c['events']) for c in cases)
    ctx.states += jr.distinct
    ctx.transitions += jr.generated
    per_cls, clause_counts, ev_counts = {}, {}, {}
    for i, c in enumerate(cases):
        cls = c['meta'].get('cls')
        per_cls[cls] = per_cls.get(cls, 0) + 1
        for e in c['events']:
            ev_counts[e['ev']] = ev_counts.get(e['ev'], 0) + 1
        if (nontrivial or (lambda cc: len(cc['events']) >= 2))(c):
            ctx.nontrivial.add(jhash(c['events']))
        for cl in jr.verdicts[i]:
            clause_counts[cl] = clause_counts.get(cl, 0) + 1
            if cl.startswith(('Conf_',)):
                ctx.nonconf(f'{cl} in {c["id"]} ({cls})')
            elif cl.startswith('Drv_'):
                raise tlc.MachineryError(f'driver produced an unknown event in {c["id"]}')
            elif cl.startswith(tuple(prefixes)):
                sig = {'driver': 'est_gen.gen_case', 'kind': kind, 'clause': cl, 'cls': cls}
                if extra_sig:
                    sig.update(extra_sig(c, cl))
                ctx.violations.append(Violation(
                    clause=cl,
                    what=f'{c["id"]} ({cls}): ops={c["ops"]} exceptions={c["raw_exc"][:2]} -> {jr.verdicts[i]}',
                    sig=sig, replay=c['meta'], detail={'clauses': jr.verdicts[i], 'spec': c['meta'].get('spec_summary')}))
    ctx.notes.setdefault('cases_per_class', {}).update({f'{kind}:{k}': v for k, v in sorted(per_cls.items())})
    ctx.notes.setdefault('events', {}).update({f'{kind}:{k}': v for k, v in sorted(ev_counts.items())})
    ctx.notes.setdefault('clause_counts_all_properties', {}).update({f'{kind}:{k}': v for k, v in clause_counts.items()})
    for c in cases[:2]:
        ctx.add_sample({'id': c['id'], 'class': c['meta'].get('cls'), 'ops': c['ops'], 'spec': c['meta'].get('spec_summary')})
    return cases, jr


def replay_case(ctx: Ctx, rep: dict, prefixes):
    from ..core import use_repo
    use_repo()
    from ..drivers import est_gen
    c = est_gen.gen_case(rep['args']['kind'], rep['args']['seed'])
    jr = tlc.judge('EstimatorTrace', [c], strip=STRIP)
    ctx.traces += 1
    ctx.evaluations += len(c['events'])
    for cl in jr.verdicts[0]:
        if cl.startswith(tuple(prefixes)):
            ctx.violations.append(Violation(clause=cl, what=f'replayed history still fails: {jr.verdicts[0]} ops={c["ops"]} exc={c["raw_exc"][:2]}',
                                            sig={'driver': 'est_gen.gen_case', 'kind': rep['args']['kind'], 'clause': cl,
                                                 'cls': c['meta'].get('cls')}, replay=rep))
