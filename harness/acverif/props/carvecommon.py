"""Shared pipeline of the carver-based checks (C01, C02, C03-carve, C16-hist): generate specs,
run the real carvers in worker processes, let TLC judge every per-feature case."""
from __future__ import annotations

from concurrent.futures import ProcessPoolExecutor

from .. import tlc
from ..core import Ctx, Violation, jhash

STRIP = ('meta', 'flags', 'id', 'feature', 'n_tr', 'lexrank', 'skip')


def _work(args):
    kind, payload = args
    from ..core import use_repo
    use_repo()
    from ..drivers import carve, carve_gen
    out = []
    for tag, item in payload:
        spec = carve_gen.random_spec(item) if kind == 'random' else item
        try:
            cases, info, _ = carve.feature_cases(spec, tag)
        except Exception as e:  # harness failure
            import traceback
            out.append((tag, spec, None, {'harness_error': traceback.format_exc()[-1500:]}))
            continue
        out.append((tag, spec, cases, info))
    return out


def run_specs(kind: str, items: list, workers: int = 16):
    """items: list of (tag, spec) for kind='spec' or (tag, seed) for kind='random'.
    Returns list of (tag, spec, cases, fit_info)."""
    chunks = [(kind, items[i::workers * 4]) for i in range(workers * 4) if items[i::workers * 4]]
    res = []
    with ProcessPoolExecutor(max_workers=workers) as ex:
        for part in ex.map(_work, chunks):
            res.extend(part)
    return res


def judge_cases(results):
    """Flatten the per-feature cases, send the judgeable ones to TLC.
    Returns (cases, verdicts{idx->list}, infos{idx->dict}, skipped{reason->count}, fits)."""
    flat, skipped, fits = [], {}, []
    for tag, spec, cases, info in results:
        if cases is None:
            raise tlc.MachineryError(f'carver driver failed on {tag}: {info.get("harness_error")}')
        fits.append((tag, spec, info))
        for c in cases:
            if c.get('skip'):
                skipped[c['skip']] = skipped.get(c['skip'], 0) + 1
                continue
            flat.append(c)
    jr = tlc.judge('CarverTrace', flat, strip=STRIP, shard_size=300)
    return flat, jr, skipped, fits


def describe(c):
    return {'id': c['id'], 'tab': c['tab'], 'cfg': c['cfg'], 'kept': c['kept'], 'final': c['final'],
            'history_rows': len(c['events'])}
