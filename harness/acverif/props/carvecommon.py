"""Shared pipeline of the carver-based checks (C01, C02, C03-carve, C16-hist): generate specs,
run the real carvers in worker processes, let TLC judge every per-feature case."""
from __future__ import annotations

from concurrent.futures import ProcessPoolExecutor

from .. import tlc
from ..core import Ctx, Violation, jhash

STRIP = ('meta', 'flags', 'id', 'feature', 'n_tr', 'lexrank', 'skip')


def _work(args):
    kind, payload = args
    from ..core import use_repo
    use_repo()
    from ..drivers import carve, carve_gen
    out = []
    for tag, item in payload:
        spec = carve_gen.random_spec(item) if kind == 'random' else item
        try:
            cases, info, _ = carve.feature_cases(spec, tag)
        except Exception as e:  # harness failure
            import traceback
            out.append((tag, spec, None, {'harness_error': traceback.format_exc()[-1500:]}))
            continue
        out.append((tag, spec, cases, info))
    return out


def run_specs(kind: str, items: list, workers: int = 16):
    """items: list of (tag, spec) for kind='spec' or (tag, seed) for kind='random'.
    Returns list of (tag, spec, cases, fit_info)."""
    chunks = [(kind, items[i::workers * 4]) for i in range(workers * 4) if items[i::workers * 4]]
    res = []
    with ProcessPoolExecutor(max_workers=workers) as ex:
        for part in ex.map(_work, chunks):
            res.extend(part)
    return res


def judge_cases(results):
    """Flatten the per-feature cases, send the judgeable ones to TLC.
    Returns (cases, verdicts{idx->list}, infos{idx->dict}, skipped{reason->count}, fits)."""
    flat, skipped, fits = [], {}, []
    for tag, spec, cases, info in results:
        if cases is None:
            raise tlc.MachineryError(f'carver driver failed on {tag}: {info.get("harness_error")}')
        fits.append((tag, spec, info))
        for c in cases:
            if c.get('skip'):
                skipped[c['skip']] = skipped.get(c['skip'], 0) + 1
                continue
            flat.append(c)
    jr = tlc.judge('CarverTrace', flat, strip=STRIP, shard_size=300)
    return flat, jr, skipped, fits


def describe(c):
    return {'id': c['id'], 'tab': c['tab'], 'cfg': c['cfg'], 'kept': c['kept'], 'final': c['final'],
            'history_rows': len(c['events'])}


DESIGN_QUICK = ['MC_Carver_quick.cfg', 'MC_Carver_dev_quick.cfg', 'MC_Carver_devnan_quick.cfg', 'MC_Carver_kruskal_quick.cfg']
DESIGN_THOROUGH = ['MC_Carver_quick.cfg', 'MC_Carver_thorough.cfg', 'MC_Carver_nan_thorough.cfg',
                   'MC_Carver_dev_thorough.cfg', 'MC_Carver_kruskal_thorough.cfg']


def design_runs(ctx: Ctx, invariants_of_interest, thorough=None):
    """Model-check Carver.tla (all invariants are checked; the evidence names the ones that carry
    this property).  `thorough`: the large configurations this property runs in the thorough tier
    (default: all of them; every large configuration is run by C01)."""
    cfgs = DESIGN_QUICK if ctx.tier == 'quick' else (thorough or DESIGN_THOROUGH)
    for cfg in cfgs:
        r = tlc.run_mc('MC_Carver', cfg, timeout=3600, coverage=(ctx.tier == 'quick'), heap='12g')
        ctx.add_design(r)
        if not r.ok:
            raise tlc.MachineryError(
                f'design counterexample in Carver.tla ({cfg}): {r.violated}; the design model is wrong or the '
                f'design breaks the property -- concretize before reporting:\n{r.counterexample[:1]}\n{r.counterexample[-1:]}')
    ctx.notes['design_invariants'] = invariants_of_interest


def carver_pipeline(ctx: Ctx, prefix: str, *, n_random_quick=500, n_random_thorough=4000, exhaustive=True,
                    nontrivial=lambda case, info: True):
    """Generate + run + judge; attribute clauses starting with `prefix` to ctx.pid."""
    from ..drivers import carve_gen
    items = []
    total_domain = 0
    if exhaustive:
        specs, total = carve_gen.exhaustive_specs(ctx.tier, ctx.seed)
        cspecs, ctotal = carve_gen.exhaustive_cont_specs(ctx.tier, ctx.seed)
        total_domain = total + ctotal
        items = [(f'ex{i}', s) for i, s in enumerate(specs)] + [(f'exc{i}', s) for i, s in enumerate(cspecs)]
    results = run_specs('spec', items) if items else []
    nrand = n_random_quick if ctx.tier == 'quick' else n_random_thorough
    base = ctx.seed * 1_000_003
    results += run_specs('random', [(f'rnd{base + i}', base + i) for i in range(nrand)])
    flat, jr, skipped, fits = judge_cases(results)
    ctx.traces += len(flat)
    ctx.evaluations += len(fits)
    ctx.states += jr.distinct
    ctx.transitions += jr.generated
    ctx.notes['fits'] = len(fits)
    ctx.notes['feature_cases_judged'] = len(flat)
    ctx.notes['cases_skipped'] = skipped
    ctx.notes['enumerated_domain_size'] = total_domain
    outcomes = {}
    for _, _, info in fits:
        outcomes[info['outcome']] = outcomes.get(info['outcome'], 0) + 1
    ctx.notes['fit_outcomes'] = outcomes
    clause_counts = {}
    for i, c in enumerate(flat):
        info = jr.info.get(i, {})
        if nontrivial(c, info):
            ctx.nontrivial.add(jhash([c['tab'], c['cfg']]))
        for cl in jr.verdicts[i]:
            clause_counts[cl] = clause_counts.get(cl, 0) + 1
            if cl.startswith('Conf_'):
                ctx.nonconf(f'{cl} in {c["id"]}', sample=describe(c))
            elif cl.startswith(prefix):
                ctx.violations.append(Violation(
                    clause=cl,
                    what=f'{c["id"]}: table={c["tab"]["tr"]} nan={c["tab"]["trnan"]} cfg={c["cfg"]} kept={c["kept"]} '
                         f'final={c["final"]} -> {jr.verdicts[i]}',
                    sig={'driver': 'carve.feature_cases', 'clause': cl, 'carver': c['meta']['args']['spec']['carver'],
                         'measure': c['cfg']['measure'], 'kind': c['tab']['kind']},
                    replay=c['meta'], detail={'case': describe(c), 'clauses': jr.verdicts[i]}))
    ctx.notes['clause_counts_all_properties'] = clause_counts
    for c in flat[:2] + flat[-1:]:
        ctx.add_sample(describe(c))
    return flat, jr, fits


def replay_case(ctx: Ctx, rep: dict, prefix: str):
    from ..core import use_repo
    use_repo()
    from ..drivers import carve
    cases, info, _ = carve.feature_cases(rep['args']['spec'], 'replay')
    cases = [c for c in cases if not c.get('skip') and (rep.get('feature') is None or c['feature'] == rep.get('feature'))]
    jr = tlc.judge('CarverTrace', cases, strip=STRIP)
    ctx.traces += len(cases)
    ctx.evaluations += 1
    for i, c in enumerate(cases):
        for cl in jr.verdicts[i]:
            if cl.startswith(prefix):
                ctx.violations.append(Violation(clause=cl, what=f'replayed case still fails: {jr.verdicts[i]}',
                                                sig={'driver': 'carve.feature_cases', 'clause': cl,
                                                     'carver': rep['args']['spec']['carver'], 'measure': c['cfg']['measure'],
                                                     'kind': c['tab']['kind']}, replay=rep))
