"""Self-test of the machinery (`bin/check selftest`): the binding of every trace specification is
demonstrated, not assumed -- good recordings of the real code must be accepted, and every
corruption operator applied to them (flip a label, merge two groups, drop an event, change a count
by one, ...) must make TLC return a non-empty verdict.  Also parses every module with SANY.

exit 0: all good recordings accepted and all corrupted ones rejected; exit 2 otherwise."""
from __future__ import annotations

import copy
import glob
import os
import sys

from . import tlc


def _accepted(v):
    return all(x.startswith('Conf_') for x in v)


def _judge(module, good, bad, strip):
    jr = tlc.judge(module, good + [b for _, b in bad], strip=strip)
    ok_good = sum(1 for i in range(len(good)) if _accepted(jr.verdicts[i]))
    rejected = {}
    for k, (name, _) in enumerate(bad):
        rejected.setdefault(name, [0, 0])
        rejected[name][1] += 1
        if jr.verdicts[len(good) + k]:          # any clause, conformance clauses included: the trace is not a behaviour of the spec
            rejected[name][0] += 1
    return ok_good, len(good), rejected


def carver():
    from .drivers import carve, carve_gen
    specs, _ = carve_gen.exhaustive_specs('quick', 123)
    good = []
    for i, s in enumerate(specs[:40]):
        cases, info, _ = carve.feature_cases(s, f'st{i}')
        good += [c for c in cases if not c.get('skip') and c['kept'] and len(c['final']) >= 2]
    good = good[:24]
    bad = []
    for c in good:
        b = copy.deepcopy(c)
        b['final'] = [b['final'][0] + b['final'][1]] + b['final'][2:]          # merge two fitted groups
        bad.append(('merge_two_groups', b))
        b = copy.deepcopy(c)
        for e in b['events']:
            if e.get('ev') == 'tested' and e.get('viab') == 1:
                e['viab'] = 0                                                    # flip the viable verdict
        bad.append(('flip_viable_verdict', b))
        b = copy.deepcopy(c)
        hit = False
        for e in b['events']:
            if e.get('ev') == 'tested' and e.get('m') not in (None, -1) and not hit:
                e['m'] += 25                                                     # the recorded association is off by 2.5e-5
                hit = True
        if hit:
            bad.append(('history_measure_value_off', b))
        b = copy.deepcopy(c)
        labs = [r[0] for r in b['out_tr'] if r[0] != 0]
        multi = [l for l in set(labs) if labs.count(l) >= 2]
        if not multi:
            continue
        k = next(i for i, r in enumerate(b['out_tr']) if r[0] == multi[0])
        b['out_tr'][k][0] = 99                                                # one row gets a label nobody else has
        b['cfg'] = dict(b['cfg'], maxmod=len(set(labs)))
        bad.append(('extra_output_labels', b))
        b = copy.deepcopy(c)
        b['events'] = [e for e in b['events'] if not (e.get('ev') == 'tested' and e.get('viab') == 1)]   # drop the winning row
        bad.append(('drop_winning_history_row', b))
    from .props.carvecommon import STRIP
    return _judge('CarverTrace', good, bad, STRIP)


def estimator():
    from .props import estcommon as ec
    good = [c for c in ec.gen_cases('c04', list(range(900, 930)), workers=8) if len(c['events']) >= 3 and c['events'][0]['outcome'] == 0]
    good = [c for c in good if any(e['ev'] == 'transform' and e['outcome'] == 0 and any(len(o) for o in e['out']) for e in c['events'])][:20]
    bad = []
    for c in good:
        b = copy.deepcopy(c)
        for e in b['events']:
            if e['ev'] == 'transform' and e['outcome'] == 0:
                for col in e['out']:
                    if col:
                        col[0] = [4, 0]                                       # a raw value instead of a label
                break
        bad.append(('raw_value_in_output', b))
        b = copy.deepcopy(c)
        for e in b['events']:
            if e['ev'] == 'transform':
                e['outcome'] = 1 if e['outcome'] == 0 else 0                  # swap accepted / rejected
                break
        bad.append(('swap_outcome', b))
        b = copy.deepcopy(c)
        done = False
        for e in b['events']:
            if e['ev'] == 'transform' and not done:
                for ft in e['st']['feats']:
                    if len(ft['order']) >= 2:
                        ft['order'] = ft['order'][::-1]                       # the state changed during transform
                        done = True
                        break
        if done:
            bad.append(('state_changed_by_transform', b))
    return _judge('EstimatorTrace', good, bad, ec.STRIP)


def base():
    from .drivers import base as bd
    import random
    rng = random.Random(5)
    good = []
    for i in range(60):
        spec = bd._quanti_spec(rng.choice(['ContinuousDiscretizer', 'QuantitativeDiscretizer']), [float(rng.randint(1, 6)) for _ in range(rng.randint(8, 30))],
                               rng.choice([0, 2]), rng.choice([[1, 4], [1, 5], [1, 10]]), rng)
        cases, info = bd.fit_cases(spec, f'st{i}')
        good += [c for c in cases if not c.get('skip') and len(c['bounds']) >= 2]
    good = good[:24]
    bad = []
    for c in good:
        b = copy.deepcopy(c)
        b['bounds'] = b['bounds'][1:]                                          # forget a boundary
        b['groups'] = [g for g in b['groups'] if g != [c['bounds'][0]]] or b['groups']
        bad.append(('drop_a_boundary', b))
        b = copy.deepcopy(c)
        b['hasnan'] = not b['hasnan']
        bad.append(('flip_missing_modality', b))
        b = copy.deepcopy(c)
        if len(b['groups']) >= 3:
            b['groups'][0], b['groups'][2] = b['groups'][2], b['groups'][0]
            b['groups'][0] = b['groups'][0] + b['groups'][1][:1]
            bad.append(('non_interval_groups', b))
    from .props.basecommon import STRIP
    return _judge('BaseTrace', good, bad, STRIP)


def others():
    import contextlib
    import io
    out = {}
    from .drivers import chained, multiclass, selector
    with contextlib.redirect_stdout(io.StringIO()):
        good = [chained.fit_case(chained.random_spec(s), f'st{s}') for s in range(700, 760)]
    good = [c for c in good if not c.get('skip') and not c.get('removed') and c['outcome'] == 0 and any(l not in (i + 1, 0) for i, l in enumerate(c['leader']))][:20]
    bad = []
    for c in good:
        b = copy.deepcopy(c)
        i = next(i for i, l in enumerate(b['leader']) if l not in (i + 1, 0))
        b['leader'][i] = i + 1                                                 # a rare value kept as its own modality
        bad.append(('rare_value_kept', b))
        b = copy.deepcopy(c)
        b['leader'][0] = 0                                                     # a hierarchy value lost
        bad.append(('value_lost', b))
    out['ChainedTrace'] = _judge('ChainedTrace', good, bad, ('meta', 'id', 'skip'))
    good = [multiclass.fit_case(multiclass.random_spec(s), f'st{s}') for s in range(800, 812)]
    good = [c for c in good if c['outcome'] == 0 and len(c['mccols']) >= 1]
    bad = []
    for c in good:
        b = copy.deepcopy(c)
        b['mccols'] = b['mccols'][1:]                                          # a column missing
        bad.append(('column_missing', b))
        b = copy.deepcopy(c)
        b['mcout'][0][1][0] = 77                                               # one output cell differs
        bad.append(('output_cell_differs', b))
    out['MulticlassTrace'] = _judge('MulticlassTrace', good, bad, ('meta', 'id'))
    good = [selector.case_for(s) for s in range(500, 530)]
    good = [c for c in good if c['outcome'] == 0 and c['meta']['task'] == 'classification' and any(len(g['sel']) >= 2 for g in c['groups'])][:15]
    bad = []
    for c in good:
        b = copy.deepcopy(c)
        g = next(g for g in b['groups'] if len(g['sel']) >= 2)
        g['sel'] = g['sel'] + g['sel'][:1]                                     # a feature returned twice
        bad.append(('feature_returned_twice', b))
        b = copy.deepcopy(c)
        g = next(g for g in b['groups'] if len(g['sel']) >= 2)
        g['nbest'] = 0                                                         # more than n_best returned
        bad.append(('more_than_n_best', b))
    out['SelectorTrace'] = _judge('SelectorTrace', good, bad, ('meta', 'id'))
    return out


def main(tier='quick') -> int:
    from .core import use_repo
    use_repo()
    bad = 0
    for p in sorted(glob.glob(os.path.join(tlc.SPECS, '*.tla'))):
        ok, _ = tlc.sany(p)
        if not ok:
            print('SANY FAIL', os.path.basename(p))
            bad += 1
    results = {'CarverTrace': carver(), 'EstimatorTrace': estimator(), 'BaseTrace': base()}
    results.update(others())
    from .core import Ctx
    from .props import c13
    ctx = Ctx('C13', 'quick', 0)
    okg, rej, n = c13.selftest_binding(ctx)
    results['GroupedListTrace'] = (6 if okg else 0, 6, {'three_operators': [rej, n]})
    for mod, (ok_good, n_good, rejected) in results.items():
        line = f'{mod}: good recordings accepted {ok_good}/{n_good}; corrupted rejected ' + \
               ', '.join(f'{k} {v[0]}/{v[1]}' for k, v in rejected.items())
        print(line)
        if ok_good != n_good or any(v[0] != v[1] for v in rejected.values()) or n_good == 0:
            bad += 1
    print('SELFTEST', 'OK' if not bad else f'FAILED ({bad})')
    return 0 if not bad else 2


if __name__ == '__main__':
    sys.exit(main())
