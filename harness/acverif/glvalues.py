"""Concrete Python values behind the integer codes of the GroupedList specifications.

Convention shared with the specs: codes in StrSet are Python str, the others numbers; inside a
class the code order is the Python sort order; NanObj (0) is the float nan object."""
import math

NAN_CODE = 0

# universes by size: code -> python value ; StrSet
UNIVERSES = {
    3: ({1: "b", 2: 0, 3: 2.5}, {1}),
    4: ({1: "__NAN__", 2: "b", 3: 0, 4: 2.5}, {1, 2}),
    5: ({1: "__NAN__", 2: "b", 3: "c", 4: 0, 5: 2.5}, {1, 2, 3}),
    # code 8 is None: a missing-value sentinel that numpy cannot sort (sort() is not a valid call while it leads a group)
    8: ({1: "__NAN__", 2: "a", 3: "b", 4: "c10", 5: 0, 6: 1, 7: 2.5, 8: None}, {1, 2, 3, 4}),
}


class Codec:
    def __init__(self, size: int):
        self.values, self.strset = UNIVERSES[size]
        self.size = size
        self._enc = {v: k for k, v in self.values.items()}

    def dec(self, code):
        if code == NAN_CODE:
            return float('nan')
        return self.values[code]

    def enc(self, value):
        if isinstance(value, float) and math.isnan(value):
            return NAN_CODE
        try:
            c = self._enc.get(value, -1)
        except TypeError:
            return -1
        # 0 == False, 1 == True : reject bools; a str must stay a str (numpy scalars are accepted)
        if value is None:
            return self._enc.get(None, -1)
        if c != -1 and (isinstance(value, bool) or isinstance(self.values[c], str) != isinstance(value, str)):
            return -1
        return c

    def dec_seq(self, s):
        return [self.dec(c) for c in s]

    def enc_seq(self, s):
        return [self.enc(v) for v in s]


def norm_fn(f):
    """TLC prints a function with domain 1..n as a tuple; turn both shapes into a dict."""
    if isinstance(f, list):
        return {i + 1: v for i, v in enumerate(f)}
    return dict(f)
