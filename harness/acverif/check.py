"""CLI:  check.py Cxx [--tier quick|thorough] [--replay file]

exit 0: the property held on everything explored (possibly with KNOWN-FINDING lines)
exit 1: at least one unlisted violation (VIOLATION property=<id> replay=<path>)
exit 2: the machinery itself failed
"""
from __future__ import annotations

import argparse
import importlib
import json
import os
import sys
import traceback


def main(argv=None) -> int:
    ap = argparse.ArgumentParser()
    ap.add_argument('pid')
    ap.add_argument('--tier', default=os.environ.get('VERIF_TIER') or 'quick', choices=['quick', 'thorough'])
    ap.add_argument('--replay', default=None)
    a = ap.parse_args(argv)
    os.environ.setdefault('PYTHONHASHSEED', '0')
    from .core import Ctx, finish
    from .tlc import MachineryError
    seed = int(os.environ.get('VERIF_SEED') or 0)
    pid = a.pid.upper()
    if pid == 'SELFTEST':
        from . import selftest
        return selftest.main(a.tier)
    ctx = Ctx(pid=pid, tier=a.tier, seed=seed)
    try:
        mod = importlib.import_module(f'acverif.props.{pid.lower()}')
        if a.replay:
            with open(a.replay) as f:
                rep = json.load(f)
            mod.replay(ctx, rep['replay'])
            ctx.rule = 'replay of one stored case'
            ctx.samples = [rep.get('what', '')]
            ctx.nontrivial.update({'replay', 'case'})
        else:
            mod.run(ctx)
        return finish(ctx)
    except MachineryError as e:
        print(f'MACHINERY-FAILURE property={pid}: {e}', file=sys.stderr)
        return 2
    except Exception:
        traceback.print_exc()
        print(f'MACHINERY-FAILURE property={pid}: unexpected exception', file=sys.stderr)
        return 2


if __name__ == '__main__':
    sys.exit(main())
