"""Parser for TLA+ values as printed by TLC (state dumps, PrintT output, -simulate files).

Supported: integers, strings, TRUE/FALSE, sequences <<..>>, sets {..}, records [a |-> v, ..],
functions (k :> v @@ k :> v), intervals a..b (expanded to a frozenset) and model values
(bare identifiers, returned as str).  Functions whose domain is 1..n are returned as lists.
"""
from __future__ import annotations


class TlaParseError(ValueError):
    pass


class _P:
    def __init__(self, s: str):
        self.s = s
        self.i = 0
        self.n = len(s)

    def ws(self):
        s, n = self.s, self.n
        while self.i < n and s[self.i] in " \t\r\n":
            self.i += 1

    def peek(self, k=1):
        return self.s[self.i:self.i + k]

    def expect(self, tok):
        self.ws()
        if not self.s.startswith(tok, self.i):
            raise TlaParseError(f"expected {tok!r} at {self.i}: {self.s[self.i:self.i+40]!r}")
        self.i += len(tok)

    def value(self):
        self.ws()
        v = self.atom()
        # function composition  a :> b @@ c :> d   (only appears inside parentheses)
        return v

    def atom(self):
        self.ws()
        s = self.s
        if self.i >= self.n:
            raise TlaParseError("unexpected end")
        c = s[self.i]
        if c == '<' and self.peek(2) == '<<':
            self.i += 2
            items = []
            self.ws()
            if self.peek(2) == '>>':
                self.i += 2
                return []
            while True:
                items.append(self.value())
                self.ws()
                if self.peek(2) == '>>':
                    self.i += 2
                    return items
                self.expect(',')
        if c == '{':
            self.i += 1
            items = []
            self.ws()
            if self.peek() == '}':
                self.i += 1
                return frozenset()
            while True:
                items.append(_freeze(self.value()))
                self.ws()
                if self.peek() == '}':
                    self.i += 1
                    return frozenset(items)
                self.expect(',')
        if c == '[':
            self.i += 1
            rec = {}
            self.ws()
            if self.peek() == ']':
                self.i += 1
                return rec
            while True:
                self.ws()
                j = self.i
                while self.i < self.n and (s[self.i].isalnum() or s[self.i] == '_'):
                    self.i += 1
                key = s[j:self.i]
                self.expect('|->')
                rec[key] = self.value()
                self.ws()
                if self.peek() == ']':
                    self.i += 1
                    return rec
                self.expect(',')
        if c == '(':
            self.i += 1
            pairs = []
            while True:
                k = self.value()
                self.expect(':>')
                v = self.value()
                pairs.append((k, v))
                self.ws()
                if self.peek(2) == '@@':
                    self.i += 2
                    continue
                self.expect(')')
                break
            keys = [k for k, _ in pairs]
            if all(isinstance(k, int) for k in keys) and sorted(keys) == list(range(1, len(keys) + 1)):
                d = dict(pairs)
                return [d[i] for i in range(1, len(keys) + 1)]
            return {_freeze(k): v for k, v in pairs}
        if c == '"':
            j = self.i + 1
            out = []
            while True:
                ch = s[j]
                if ch == '\\':
                    nxt = s[j + 1]
                    out.append({'n': '\n', 't': '\t', '"': '"', '\\': '\\'}.get(nxt, nxt))
                    j += 2
                elif ch == '"':
                    break
                else:
                    out.append(ch)
                    j += 1
            self.i = j + 1
            return ''.join(out)
        if c == '-' or c.isdigit():
            j = self.i
            self.i += 1
            while self.i < self.n and s[self.i].isdigit():
                self.i += 1
            v = int(s[j:self.i])
            self.ws()
            if self.peek(2) == '..':
                self.i += 2
                hi = self.atom()
                return frozenset(range(v, hi + 1))
            return v
        if c.isalpha() or c == '_':
            j = self.i
            while self.i < self.n and (s[self.i].isalnum() or s[self.i] == '_'):
                self.i += 1
            w = s[j:self.i]
            if w == 'TRUE':
                return True
            if w == 'FALSE':
                return False
            return w
        raise TlaParseError(f"unexpected {c!r} at {self.i}: {s[self.i:self.i+40]!r}")


def _freeze(v):
    if isinstance(v, list):
        return tuple(_freeze(x) for x in v)
    if isinstance(v, dict):
        return tuple(sorted(((k, _freeze(x)) for k, x in v.items()), key=repr))
    return v


def parse(text: str):
    p = _P(text)
    v = p.value()
    p.ws()
    if p.i != p.n:
        raise TlaParseError(f"trailing input at {p.i}: {text[p.i:p.i+40]!r}")
    return v


def parse_prefix(text: str, start: int = 0):
    """Parse one value starting at `start`; returns (value, end_index)."""
    p = _P(text)
    p.i = start
    v = p.value()
    return v, p.i


def parse_state(block: str) -> dict:
    """Parse a conjunction `/\\ var = value` block (one state of a dump / simulate file)."""
    p = _P(block)
    out = {}
    while True:
        p.ws()
        if p.i >= p.n:
            break
        if p.peek(2) == '/\\':
            p.i += 2
        p.ws()
        j = p.i
        while p.i < p.n and (block[p.i].isalnum() or block[p.i] == '_'):
            p.i += 1
        name = block[j:p.i]
        if not name:
            raise TlaParseError(f"variable name expected at {p.i}: {block[p.i:p.i+40]!r}")
        p.expect('=')
        out[name] = p.value()
    return out


def parse_dump(path: str):
    """Yield the states of a `tlc -dump` file."""
    with open(path) as f:
        block = []
        for line in f:
            if line.startswith('State '):
                if block:
                    yield parse_state(''.join(block))
                block = []
            elif line.strip():
                block.append(line)
        if block:
            yield parse_state(''.join(block))


def to_tla(v) -> str:
    """Render a Python value as a TLA+ expression (ints, bools, str, list->Seq, dict->record,
    (frozen)set->set, tuple->Seq)."""
    if isinstance(v, bool):
        return 'TRUE' if v else 'FALSE'
    if isinstance(v, int):
        return str(v)
    if isinstance(v, str):
        return '"' + v.replace('\\', '\\\\').replace('"', '\\"') + '"'
    if isinstance(v, (list, tuple)):
        return '<<' + ', '.join(to_tla(x) for x in v) + '>>'
    if isinstance(v, (set, frozenset)):
        return '{' + ', '.join(sorted(to_tla(x) for x in v)) + '}'
    if isinstance(v, dict):
        if not v:
            return '<<>>'
        if all(isinstance(k, str) and k.isidentifier() for k in v):
            return '[' + ', '.join(f'{k} |-> {to_tla(x)}' for k, x in v.items()) + ']'
        return '(' + ' @@ '.join(f'{to_tla(k)} :> {to_tla(x)}' for k, x in v.items()) + ')'
    raise TypeError(f'cannot render {type(v)}')
