"""spec -> code replay for the selection loop (C14): every (measures, inter-feature association,
n_best) of the TLC dump of specs/Selector.tla is run through a real ClassificationSelector whose
association measure is a table look-up and whose inter-feature correlation (DataFrame.corr, called
by the library's own spearman filter) is a table look-up; the returned list must be one of the
results the specification reaches for that input (ties may be ranked in any order)."""
from __future__ import annotations

import math
from unittest import mock

UNDEF = -1
THRESH = 0.5


def _seq(v):
    """a TLA+ function over 1..n comes back as a list, over another domain as a dict"""
    return [v[k] for k in sorted(v)] if isinstance(v, dict) else list(v)


def allowed_results(states):
    """done-states of Selector.tla -> {(m, a, nbest): set of result tuples}"""
    out = {}
    for st in states:
        if st['phase'] != 'done':
            continue
        m, a = _seq(st['m']), [_seq(r) for r in _seq(st['a'])]
        key = (tuple(m), tuple(tuple(r) for r in a), st['nbest'])
        out.setdefault(key, set()).add(tuple(st['result']))
    return out


def replay_input(key):
    """-> tuple of feature ids returned by the real selector for the input `key`"""
    import numpy as np
    import pandas as pd
    from AutoCarver.selectors import ClassificationSelector
    from AutoCarver.selectors.filters import spearman_filter
    m, a, nbest = key
    k = len(m)
    names = ['f%d' % (i + 1) for i in range(k)]
    rng = np.random.RandomState(7)
    X = pd.DataFrame({f: rng.permutation(16).astype(float) + 0.25 * i for i, f in enumerate(names)})
    y = pd.Series([0, 1] * 8)
    table = {f: (float('nan') if m[i] == UNDEF else 0.1 * m[i]) for i, f in enumerate(names)}
    assoc = {f: {g: (1.0 if f == g else a[i][j] / 10.0) for j, g in enumerate(names)} for i, f in enumerate(names)}

    def table_measure(x, y, **kwargs):
        return True, {'table_measure': table[x.name]}

    def table_corr(self, method='pearson', *args, **kwargs):
        cols = list(self.columns)
        return pd.DataFrame([[assoc[f][g] for g in cols] for f in cols], index=cols, columns=cols)

    sel = ClassificationSelector(n_best=nbest, quantitative_features=list(names), quantitative_measures=[table_measure],
                                 quantitative_filters=[spearman_filter], thresh_corr=THRESH, verbose=False)
    with mock.patch.object(pd.DataFrame, 'corr', table_corr):
        got = sel.select(X, y)
    return tuple(names.index(f) + 1 for f in got)


def replay_chunk(items):
    """items: list of (key, allowed set) -> list of (key, got, allowed) that disagree"""
    bad = []
    for key, allowed in items:
        got = replay_input(key)
        if got not in allowed:
            bad.append((key, got, sorted(allowed)))
    return bad
