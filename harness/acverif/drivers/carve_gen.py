"""Input generators for the carver drivers: JSON-able `spec`s for drivers.carve.

* `table_spec`: a small binary / continuous count table realised as a quantitative, an ordinal
  and a categorical column in one frame (base stage leaves each distinct value its own bucket:
  min_freq = 1/(2N)); used for the exhaustive small domains.
* `random_spec`: seeded random frames (n <= 64) with tie-biased targets, optional missing values
  and optional dev sample; realistic min_freq so that the base stage does merge.
"""
from __future__ import annotations

import itertools
import random

LETTERS = ['a', 'b', 'c', 'd', 'e', 'f', 'g', 'h', 'i', 'j']
THRESHOLDS = [[1, 10], [3, 20], [1, 5], [1, 4], [3, 10], [1, 3], [2, 5]]


def _rows_from_cells(cells, cont):
    """cells[i] = [n0, n1] (binary) or list of y (continuous) for bucket i (0 = missing)."""
    rows = []
    for i, c in enumerate(cells):
        if cont:
            rows += [(i, y) for y in c]
        else:
            rows += [(i, 0)] * c[0] + [(i, 1)] * c[1]
    return rows


def table_spec(cells, dev_cells, *, cont, kinds, params, quanti_values=None, shuffle_seed=None):
    """cells / dev_cells: index 0 = missing-value cell, 1..K = buckets in feature order."""
    K = len(cells) - 1
    rows = _rows_from_cells(cells, cont)
    if shuffle_seed is not None:
        random.Random(shuffle_seed).shuffle(rows)
    qv = quanti_values or list(range(0, K))          # the lowest quantile is 0.0 (a falsy number)
    names = {'quanti': [None] + qv, 'ordinal': [None] + LETTERS[:K], 'categ': [None] + ['m%d' % i for i in range(1, K + 1)]}
    feats = {}
    for kind in kinds:
        d = {'kind': kind, 'values': [names[kind][i] for i, _ in rows]}
        if kind == 'ordinal':
            d['order'] = LETTERS[:K]
        feats[kind[0]] = d
    spec = {'carver': 'continuous' if cont else 'binary', 'features': feats, 'y': [y for _, y in rows],
            'dev': None, 'params': dict(params)}
    if dev_cells is not None:
        drows = _rows_from_cells(dev_cells, cont)
        spec['dev'] = {'features': {kind[0]: [names[kind][i] for i, _ in drows] for kind in kinds},
                       'y': [y for _, y in drows]}
    n = len(rows)
    spec['params'].setdefault('min_freq', [1, 2 * max(n, 1)])
    return spec


def bin_cells(maxc):
    return [[a, b] for a in range(maxc + 1) for b in range(maxc + 1) if a + b > 0]


def cont_cells(yvals, maxrows):
    out = []
    for n in range(1, maxrows + 1):
        out += [list(c) for c in itertools.combinations_with_replacement(yvals, n)]
    return out


def enumerate_tables(K, maxc, cont=False, yvals=(0, 1, 2)):
    cells = cont_cells(yvals, maxc) if cont else bin_cells(maxc)
    for combo in itertools.product(cells, repeat=K):
        if cont:
            ys = [y for c in combo for y in c]
            if len(set(ys)) < 3:        # ContinuousCarver wants > 2 distinct y
                continue
        else:
            if sum(c[1] for c in combo) == 0 or sum(c[0] for c in combo) == 0:
                continue
        yield [list(c) for c in combo]


def exhaustive_specs(tier, seed):
    """The enumerated small domain: every table (K <= 3, cells 0..2 per class) x configurations.
    quick draws a seeded sample of it, thorough takes all of it (plus a sample of K = 4)."""
    rng = random.Random(seed * 7919 + 11)
    specs = []
    nan_cells = [None, [1, 0], [0, 1], [1, 1], [2, 1]]
    grid = []
    for K in (2, 3):
        for t in enumerate_tables(K, 2):
            grid.append((K, t))
    if tier == 'thorough':
        k4 = list(enumerate_tables(4, 1))
        grid += [(4, t) for t in k4]
    configs = [(m, mm, thr, dn) for m in ('cramerv', 'tschuprowt') for mm in (2, 3, 4)
               for thr in ([1, 10], [1, 4], [1, 3]) for dn in (True, False)]
    full = [(K, t, nc, cfg) for (K, t) in grid for nc in nan_cells for cfg in configs]
    total = len(full)
    if tier == 'quick':
        full = rng.sample(full, 700)
    elif len(full) > 6000:
        full = rng.sample(full, 6000)
    for (K, t, nc, (m, mm, thr, dn)) in full:
        cont = False
        cells = [nc if nc is not None else [0, 0]] + t
        params = {'sort_by': m, 'min_freq_mod': thr, 'max_n_mod': mm, 'dropna': dn,
                  'output_dtype': rng.choice(['float', 'str'])}
        dev = None
        if rng.random() < 0.3:
            dev = [[rng.randint(0, 2), rng.randint(0, 2)] if (i > 0 or nc is not None) else [0, 0] for i in range(K + 1)]
        specs.append(table_spec(cells, dev, cont=cont, kinds=('quanti', 'ordinal', 'categ'), params=params))
    return specs, total


def exhaustive_cont_specs(tier, seed):
    rng = random.Random(seed * 104729 + 5)
    grid = [(K, t) for K in (2, 3) for t in enumerate_tables(K, 2, cont=True)]
    nan_cells = [None, [0], [2], [0, 2], [1, 1]]
    configs = [(mm, thr, dn) for mm in (2, 3) for thr in ([1, 10], [1, 4], [1, 3]) for dn in (True, False)]
    full = [(K, t, nc, cfg) for (K, t) in grid for nc in nan_cells for cfg in configs]
    total = len(full)
    full = rng.sample(full, 250 if tier == 'quick' else min(len(full), 2000))
    specs = []
    for (K, t, nc, (mm, thr, dn)) in full:
        cells = [nc if nc is not None else []] + t
        params = {'sort_by': 'kruskal', 'min_freq_mod': thr, 'max_n_mod': mm, 'dropna': dn,
                  'output_dtype': rng.choice(['float', 'str'])}
        dev = None
        if rng.random() < 0.3:
            dev = [[rng.randint(0, 2) for _ in range(rng.randint(0, 2))] if (i > 0 or nc is not None) else [] for i in range(K + 1)]
        specs.append(table_spec(cells, dev, cont=True, kinds=('quanti', 'ordinal', 'categ'), params=params))
    return specs, total


RATES = [0, 0.25, 1 / 3, 0.5, 0.5, 2 / 3, 0.75, 1]


def just_below_threshold_spec(seed):
    """A large sample (n = 2001) whose missing-value modality, strongly associated with the target, holds a share of
    the rows just below min_freq_mod (100 / 2001 = 0.049975 < 0.05; 200 / 2001 = 0.09995 < 0.1): kept apart it would be
    the best grouping, but it is not viable -- a share is compared as it is, not as it prints with 4 decimals."""
    rng = random.Random(seed)
    k, thr = rng.choice([(100, [1, 20]), (200, [1, 10])])
    pos = rng.randint(80, 95) * k // 100
    rest = 2001 - k
    sizes = [rest // 3, rest // 3, rest - 2 * (rest // 3)]
    rates = sorted(rng.sample([5, 12, 20, 28, 35], 3))
    cells = [[k - pos, pos]] + [[sz - sz * r // 100, sz * r // 100] for sz, r in zip(sizes, rates)]
    params = {'sort_by': rng.choice(['cramerv', 'tschuprowt']), 'min_freq_mod': thr, 'max_n_mod': rng.choice([3, 4]),
              'dropna': True, 'output_dtype': rng.choice(['float', 'str']), 'verbose': False}
    return table_spec(cells, None, cont=False, kinds=[rng.choice(['quanti', 'ordinal', 'categ'])], params=params, shuffle_seed=seed)


def random_spec(seed):
    """A random frame: 1-3 features, n in 16..64, tie-biased, optional NaN / dev."""
    if seed % 40 == 17:
        return just_below_threshold_spec(seed)
    rng = random.Random(seed)
    cont = rng.random() < 0.3
    n = rng.randint(16, 64)
    nfeat = rng.randint(1, 3)
    kinds = [rng.choice(['quanti', 'ordinal', 'categ']) for _ in range(nfeat)]
    with_dev = rng.random() < 0.35
    ndev = rng.randint(12, 48) if with_dev else 0

    feats, devf = {}, {}
    latent = []          # per feature: per row latent level (drives y)
    for j, kind in enumerate(kinds):
        nlev = rng.randint(2, 7)
        pnan = rng.choice([0, 0, 0.1, 0.25])
        lv = [rng.randrange(nlev) for _ in range(n)]
        lvd = [rng.randrange(nlev) for _ in range(ndev)]
        if rng.random() < 0.3:      # a spike
            sp = rng.randrange(nlev)
            lv = [sp if rng.random() < 0.4 else x for x in lv]
        latent.append((lv, nlev, lvd))
        name = f'{kind[0]}{j}'
        if kind == 'quanti':
            scale = rng.choice([1, 1, 0.5, 10, 1000])
            jitter = rng.random() < 0.4

            def val(x):
                base = x * scale
                if jitter:
                    base += rng.choice([0, 0.25 * scale, 0.5 * scale])
                return base
            vals = [None if rng.random() < pnan else val(x) for x in lv]
            dvals = [None if (pnan and rng.random() < pnan) else val(x) for x in lvd]
            feats[name] = {'kind': kind, 'values': vals}
        elif kind == 'ordinal':
            order = LETTERS[:nlev]
            if rng.random() < 0.3:
                order = order + ['zz']          # never observed
            vals = [None if rng.random() < pnan else LETTERS[x] for x in lv]
            dvals = [None if (pnan and rng.random() < pnan) else LETTERS[x] for x in lvd]
            feats[name] = {'kind': kind, 'values': vals, 'order': order}
        else:
            cats = ['c%d' % i for i in range(nlev)]
            if rng.random() < 0.3:
                cats = [str(i) for i in range(nlev)] if rng.random() < 0.5 else list(range(nlev))
            vals = [None if rng.random() < pnan else cats[x] for x in lv]
            dvals = [None if (pnan and rng.random() < pnan) else cats[x] for x in lvd]
            feats[name] = {'kind': kind, 'values': vals}
        devf[name] = dvals
    # target: driven by the first feature's latent level with tie-biased rates
    lv, nlev, lvd0 = latent[0]
    rates = [rng.choice(RATES) for _ in range(nlev)]
    if cont:
        means = [rng.randint(0, 6) for _ in range(nlev)]
        y = [max(0, min(9, means[x] + rng.choice([-1, 0, 0, 1]))) for x in lv]
        if len(set(y)) < 3:
            y[0], y[1], y[2] = 0, 4, 9
    else:
        y = [1 if rng.random() < rates[x] else 0 for x in lv]
        if sum(y) == 0:
            y[0] = 1
        if sum(y) == len(y):
            y[0] = 0
    spec = {'carver': 'continuous' if cont else 'binary', 'features': feats, 'y': y, 'dev': None}
    if with_dev:
        if cont:
            yd = [max(0, min(9, means[x] + rng.choice([-1, 0, 0, 1]))) for x in lvd0]
        else:
            yd = [1 if rng.random() < rates[x] else 0 for x in lvd0]
            if sum(yd) == 0:
                yd[0] = 1
            if sum(yd) == len(yd):
                yd[0] = 0
        spec['dev'] = {'features': devf, 'y': yd}
    mf = rng.choice([[1, 10], [3, 20], [1, 5], [1, 4], [3, 10]])
    spec['params'] = {
        'sort_by': 'kruskal' if cont else rng.choice(['cramerv', 'tschuprowt']),
        'min_freq': mf,
        'min_freq_mod': rng.choice([None, None, [1, 10], [1, 5], [1, 4]]),
        'max_n_mod': rng.choice([2, 3, 3, 4]),
        'dropna': rng.random() < 0.6,
        'output_dtype': rng.choice(['float', 'str']),
        'verbose': rng.random() < 0.12,          # printing the tables must not change anything
    }
    return spec
