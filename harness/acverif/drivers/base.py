"""Base-discretization driver (C09, C03): runs the real ContinuousDiscretizer /
QuantitativeDiscretizer / OrdinalDiscretizer / CategoricalDiscretizer / QualitativeDiscretizer /
Discretizer on a JSON-able spec (same format as drivers.estimator), observes every rare-modality
merge decision by wrapping `find_common_modalities` / `find_closest_modality`, and projects the
fitted values_orders of every feature into a case for specs/BaseTrace.tla."""
from __future__ import annotations

import itertools
import math
import random

from . import estimator as E

INF = 1_000_000
STR_NAN, STR_DEFAULT = E.STR_NAN, E.STR_DEFAULT


class MergeRecorder:
    def __init__(self):
        self.log = {}
        self._cur = None

    def __enter__(self):
        import AutoCarver.discretizers.utils.qualitative_discretizers as qd
        self.qd = qd
        self.o_common, self.o_closest = qd.find_common_modalities, qd.find_closest_modality
        rec = self

        def common(df_feature, y, min_freq, order):
            rec._cur = df_feature.name
            rec.log.setdefault(rec._cur, [])
            try:
                return rec.o_common(df_feature, y, min_freq, order)
            finally:
                rec._cur = None

        def closest(idx, frequencies, target_rates, min_freq):
            res = rec.o_closest(idx, frequencies, target_rates, min_freq)
            if rec._cur is not None:
                rec.log[rec._cur].append({'d': int(idx) + 1, 'k': int(res) + 1})
            return res

        qd.find_common_modalities = common
        qd.find_closest_modality = closest
        return self

    def __exit__(self, *a):
        self.qd.find_common_modalities = self.o_common
        self.qd.find_closest_modality = self.o_closest


def fit_cases(spec, tag=''):
    """-> (cases, info)"""
    o, X, y, kw = E.build(spec)
    exc = None
    import contextlib
    from .. import fakepool
    # spec['schedule'] (completion order of the per-feature tasks) + params.n_jobs > 1: the fit runs through the
    # schedule-driven stand-in for multiprocessing.Pool
    pool = fakepool.patched(spec['schedule']) if spec.get('schedule') else contextlib.nullcontext()
    with MergeRecorder() as rec, pool:
        try:
            o.fit(X, y) if y is not None else o.fit(X)
        except Exception as e:
            exc = e
    info = {'outcome': E.outcome_code(exc), 'exc': E.exc_text(exc)}
    cases = []
    if exc is not None:
        return cases, info
    mf = spec['params']['min_freq']
    # the sentinels this object was configured with (the names the user chose, not the ones a sub-step fell back to)
    STR_NAN = spec['params'].get('str_nan') or E.STR_NAN
    STR_DEFAULT = spec['params'].get('str_default') or E.STR_DEFAULT
    n = len(X)
    ys = [int(v) for v in spec['y']] if spec.get('y') is not None else [0] * n
    for f, d in spec['features'].items():
        case = {'id': f'{tag}:{f}', 'mf': list(mf), 'lendf': n, 'events': rec.log.get(f, []),
                'meta': {'driver': 'base.fit_cases', 'args': {'spec': spec}, 'feature': f, 'cls': spec['cls']}}
        if f not in o.features:
            case['skip'] = 'feature_removed'
            cases.append(case)
            continue
        vo = o.values_orders[f]
        col = list(X[f])
        nnan = sum(1 for v in col if E.isnan(v))
        has_nan = any(isinstance(v, str) and v == STR_NAN for v in vo)
        if d['kind'] == 'quanti':
            vals = [float(v) for v in col if not E.isnan(v)]
            members = [m for k in vo for m in vo.content[k]]
            finite = sorted({float(m) for m in members if E.is_number(m) and not E.isnan(m) and math.isfinite(float(m))})
            universe = sorted(set(vals) | set(finite))
            rank = {v: i + 1 for i, v in enumerate(universe)}
            pairs = sorted(((float(v), int(yy)) for v, yy in zip(col, ys) if not E.isnan(v)), key=lambda t: t[0])
            leaders = [k for k in vo if not (isinstance(k, str) and k == STR_NAN)]

            def code(m):
                fm = float(m)
                return INF if math.isinf(fm) else rank[fm]
            if spec['cls'] == 'ContinuousDiscretizer':
                bounds = [code(k) for k in leaders if math.isfinite(float(k))]
            else:
                bounds = [rank[v] for v in finite]
            case.update({'kind': 'quanti', 'df': [rank[v] for v, _ in pairs], 'ys': [yy for _, yy in pairs],
                         'bounds': bounds, 'groups': [[code(m) for m in vo.content[k] if not (isinstance(m, str))] for k in leaders],
                         'merge': spec['cls'] != 'ContinuousDiscretizer', 'hasnan': bool(has_nan), 'nnan': nnan,
                         'n': [], 's': [], 'dflt': [], 'order': [], 'nanrows': nnan})
        elif d['kind'] == 'ordinal':
            ranking = [E.strform(v) for v in d['order']]
            idx = {v: i + 1 for i, v in enumerate(ranking)}
            cnt = [0] * len(ranking)
            sm = [0] * len(ranking)
            for v, yy in zip(col, ys):
                if not E.isnan(v) and E.strform(v) in idx:
                    cnt[idx[E.strform(v)] - 1] += 1
                    sm[idx[E.strform(v)] - 1] += yy
            leaders = [k for k in vo if not (isinstance(k, str) and k == STR_NAN)]
            groups = [sorted({idx[E.strform(m)] for m in vo.content[k] if E.strform(m) in idx}) for k in leaders]
            case.update({'kind': 'ordinal', 'n': cnt, 's': sm, 'groups': groups, 'hasnan': bool(has_nan), 'nnan': nnan,
                         'df': [], 'ys': [], 'bounds': [], 'merge': True, 'dflt': [], 'order': [], 'nanrows': nnan})
        else:
            seen = []
            for v in col:
                if not E.isnan(v) and E.strform(v) not in seen:
                    seen.append(E.strform(v))
            idx = {v: i + 1 for i, v in enumerate(seen)}
            cnt = [0] * len(seen)
            sm = [0] * len(seen)
            for v, yy in zip(col, ys):
                if not E.isnan(v):
                    cnt[idx[E.strform(v)] - 1] += 1
                    sm[idx[E.strform(v)] - 1] += yy
            dflt = []
            if STR_DEFAULT in vo.content:
                dflt = sorted({idx[E.strform(m)] for m in vo.content[STR_DEFAULT] if E.strform(m) in idx})
            order = []
            for k in vo:
                if isinstance(k, str) and k == STR_NAN:
                    order.append(0)
                elif isinstance(k, str) and k == STR_DEFAULT:
                    order.append(-1)
                else:
                    order.append(idx.get(E.strform(k), 99))
            case.update({'kind': 'categ', 'n': cnt, 's': sm, 'dflt': dflt, 'order': order, 'nanrows': nnan,
                         'groups': [], 'hasnan': bool(has_nan), 'nnan': nnan, 'df': [], 'ys': [], 'bounds': [], 'merge': False})
        cases.append(case)
    return cases, info


# ---------------------------------------------------------------------------------------------
# generators
# ---------------------------------------------------------------------------------------------
THRESHOLDS = [[1, 2], [2, 5], [1, 3], [3, 10], [1, 4], [1, 5], [3, 20], [1, 8], [1, 10]]


def _quanti_spec(cls, values, nnan, mf, rng):
    vals = list(values) + [None] * nnan
    rng.shuffle(vals)
    y = [rng.randint(0, 1) for _ in vals]
    if sum(y) == 0:
        y[0] = 1
    if sum(y) == len(y):
        y[0] = 0
    return {'cls': cls, 'features': {'q': {'kind': 'quanti', 'values': vals}}, 'y': y, 'params': {'min_freq': mf}}


def exhaustive_quanti(tier, seed):
    """Every multiset of size <= 6 (8 in thorough) over 5 values x missing count x threshold."""
    rng = random.Random(seed * 31 + 7)
    maxn = 6 if tier == 'quick' else 8
    dom = []
    for n in range(1, maxn + 1):
        for ms in itertools.combinations_with_replacement(range(1, 6), n):
            for nnan in (0, 1, 3):
                for mf in THRESHOLDS:
                    dom.append((ms, nnan, mf))
    total = len(dom)
    if tier == 'quick':
        dom = rng.sample(dom, 2500)
    elif len(dom) > 25000:
        dom = rng.sample(dom, 25000)
    specs = []
    for ms, nnan, mf in dom:
        cls = rng.choice(['ContinuousDiscretizer', 'QuantitativeDiscretizer'])
        specs.append(_quanti_spec(cls, [float(v) for v in ms], nnan, mf, rng))
    return specs, total


def runlength_quanti(tier, seed, count):
    """run-length samples: 5 distinct values x count 0..7, N up to ~38 (duplicate sub-quantiles
    first appear around N = 20)."""
    rng = random.Random(seed * 53 + 3)
    specs = []
    for _ in range(count):
        counts = [rng.choice([0, 1, 1, 2, 3, 5, 6, 7]) for _ in range(rng.randint(3, 9))]
        if sum(counts) == 0:
            counts[0] = 2
        vals = [float(i + 1) for i, c in enumerate(counts) for _ in range(c)]
        cls = rng.choice(['ContinuousDiscretizer', 'QuantitativeDiscretizer', 'QuantitativeDiscretizer'])
        specs.append(_quanti_spec(cls, vals, rng.choice([0, 0, 2, 3]), rng.choice(THRESHOLDS), rng))
    return specs


def exhaustive_quali(tier, seed):
    """Every count vector (K <= 4, counts 0..3) with binary targets through OrdinalDiscretizer
    and CategoricalDiscretizer (sampled in quick)."""
    rng = random.Random(seed * 71 + 1)
    dom = []
    for K in (2, 3, 4):
        for counts in itertools.product(range(0, 4), repeat=K):
            if sum(counts) < 2:
                continue
            for mf in ([1, 3], [1, 4], [1, 10]):
                for nnan in (0, 2):
                    dom.append((K, counts, mf, nnan))
    total = len(dom)
    if tier == 'quick':
        dom = rng.sample(dom, 900)
    specs = []
    letters = ['a', 'b', 'c', 'd']
    for K, counts, mf, nnan in dom:
        kind = rng.choice(['ordinal', 'categ'])
        vals = [letters[i] for i, c in enumerate(counts) for _ in range(c)] + [None] * nnan
        y = [rng.randint(0, 1) for _ in vals]
        if sum(y) == 0:
            y[0] = 1
        if sum(y) == len(y):
            y[-1] = 0
        if kind == 'ordinal':
            d = {'kind': 'ordinal', 'values': vals, 'order': letters[:K]}
            cls = rng.choice(['OrdinalDiscretizer', 'QualitativeDiscretizer', 'Discretizer'])
        else:
            if any(c == 0 for c in counts):
                vals = [v for v in vals]
            d = {'kind': 'categ', 'values': vals}
            cls = rng.choice(['CategoricalDiscretizer', 'QualitativeDiscretizer', 'Discretizer'])
        specs.append({'cls': cls, 'features': {'x': d}, 'y': y, 'params': {'min_freq': mf}})
    return specs, total


def random_base_spec(seed):
    from . import est_gen
    rng = random.Random(seed)
    cls = rng.choice(['Discretizer', 'Discretizer', 'QuantitativeDiscretizer', 'QualitativeDiscretizer', 'ContinuousDiscretizer',
                      'OrdinalDiscretizer', 'CategoricalDiscretizer'])
    spec = est_gen.random_object_spec(rng, cls, n=rng.randint(10, 64))
    spec['params']['min_freq'] = rng.choice(THRESHOLDS)
    spec.pop('float_dtype', None)
    if cls not in ('Discretizer', 'QualitativeDiscretizer', 'CategoricalDiscretizer'):
        spec['params'].pop('str_nan', None)         # (projected with the default sentinels)
        spec['params'].pop('str_default', None)
    if len(spec['features']) >= 2 and cls != 'OrdinalDiscretizer' and rng.random() < 0.3:
        # the same fit farmed out to worker processes, the last feature finishing first
        spec['params']['n_jobs'] = 2
        spec['schedule'] = list(reversed(list(spec['features'])))
    return spec
