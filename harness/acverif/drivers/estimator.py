"""Life-cycle driver for discretizer / carver objects: builds real objects from JSON-able specs,
performs public calls, records after every call the projected state and the observable result
(raw python values), and finally encodes everything into the integer world of
specs/EstimatorTrace.tla.
"""
from __future__ import annotations

import copy
import json
import math
import re
import traceback

STR_NAN = '__NAN__'
STR_DEFAULT = '__OTHER__'
INF_CODE = 1_000_000


def isnan(v):
    return v is None or (isinstance(v, float) and math.isnan(v))


def is_number(v):
    import numpy as np
    return isinstance(v, (int, float, np.integer, np.floating)) and not isinstance(v, (bool, np.bool_))


def strform(v):
    """String form used by the library for qualitative values (independent re-implementation)."""
    import numpy as np
    if isinstance(v, str):
        return v
    if isinstance(v, (float, np.floating)) and float(v).is_integer():
        return str(int(v))
    return str(v)


# ---------------------------------------------------------------------------------------------
# building real objects
# ---------------------------------------------------------------------------------------------

def frames_of(spec):
    import numpy as np
    import pandas as pd

    def col(vals, kind, d=None):
        if kind == 'quanti' and d is not None and d.get('int64') and all(v is not None for v in vals):
            return pd.Series([int(v) for v in vals], dtype='int64')     # 64-bit identifiers / nanosecond timestamps (beyond 2^53)
        if kind == 'quanti':
            return pd.Series([np.nan if v is None else float(v) for v in vals], dtype=spec.get('float_dtype', 'float64'))
        if spec.get('int_dtype_columns') and vals and all(isinstance(v, int) and not isinstance(v, bool) for v in vals):
            return pd.Series(vals, dtype='int64')          # numeric categories in an integer column (numpy integers, not python ints)
        return pd.Series([np.nan if v is None else v for v in vals], dtype=object)

    feats = spec['features']
    X = pd.DataFrame({f: col(d['values'], d['kind'], d) for f, d in feats.items()})
    if spec.get('extra_column'):
        X['zz_extra'] = list(range(len(X)))
    y = pd.Series(spec['y']) if spec.get('y') is not None else None
    idx = spec.get('index')
    if idx is not None:
        X.index = idx
        if y is not None:
            y.index = idx
    Xd = yd = None
    if spec.get('dev'):
        Xd = pd.DataFrame({f: col(v, feats[f]['kind']) for f, v in spec['dev']['features'].items()})
        yd = pd.Series(spec['dev']['y'])
    return X, y, Xd, yd


def build(spec):
    """-> (object, X, y, fit_kwargs)"""
    from AutoCarver import carvers
    from AutoCarver import discretizers as D
    cls = spec['cls']
    p = dict(spec.get('params') or {})
    feats = spec['features']
    quanti = [f for f, d in feats.items() if d['kind'] == 'quanti']
    categ = [f for f, d in feats.items() if d['kind'] == 'categ']
    ordinal = [f for f, d in feats.items() if d['kind'] == 'ordinal']
    orders = {f: list(d['order']) for f, d in feats.items() if d.get('order') is not None}
    for f, d in feats.items():
        # a categorical (non-ordinal) feature may come with an entry in values_orders too: its known categories
        # listed in any order ('listed'), or a previous grouping reused ('preset': leader -> members)
        if d.get('listed') is not None:
            orders[f] = list(d['listed'])
        if d.get('preset') is not None:
            orders[f] = D.GroupedList({k: list(v) for k, v in d['preset'].items()})
    X, y, Xd, yd = frames_of(spec)
    fitkw = {}
    mf = p.get('min_freq', [1, 10])
    min_freq = mf[0] / mf[1]
    common = {'copy': bool(p.get('copy', True)), 'verbose': False}
    if p.get('n_jobs'):
        common['n_jobs'] = p['n_jobs']
    if p.get('str_nan'):
        common['str_nan'] = p['str_nan']
    if p.get('str_default') and cls not in ('QuantitativeDiscretizer', 'ContinuousDiscretizer', 'OrdinalDiscretizer', 'StringDiscretizer'):
        common['str_default'] = p['str_default']
    if cls in ('BinaryCarver', 'ContinuousCarver', 'MulticlassCarver'):
        if p.get('dup_names'):
            # the caller's lists name a column twice (two overlapping candidate lists concatenated)
            quanti, categ = quanti + quanti[:1], categ + categ[-1:]
        kw = dict(quantitative_features=quanti, qualitative_features=categ, ordinal_features=ordinal,
                  values_orders=orders, min_freq=min_freq, max_n_mod=p.get('max_n_mod', 5),
                  dropna=bool(p.get('dropna', True)), output_dtype=p.get('output_dtype', 'float'), **common)
        if p.get('min_freq_mod') is not None:
            kw['min_freq_mod'] = p['min_freq_mod'][0] / p['min_freq_mod'][1]
        if cls == 'ContinuousCarver':
            o = carvers.ContinuousCarver(**kw)
        else:
            o = getattr(carvers, cls)(sort_by=p.get('sort_by', 'tschuprowt'), **kw)
        if Xd is not None:
            fitkw = {'X_dev': Xd, 'y_dev': yd}
    elif cls == 'Discretizer':
        o = D.Discretizer(quantitative_features=quanti, qualitative_features=categ, ordinal_features=ordinal,
                          values_orders=orders, min_freq=min_freq, **common)
    elif cls == 'QualitativeDiscretizer':
        o = D.QualitativeDiscretizer(qualitative_features=categ, ordinal_features=ordinal, values_orders=orders,
                                     min_freq=min_freq, **common)
    elif cls == 'QuantitativeDiscretizer':
        o = D.QuantitativeDiscretizer(quantitative_features=quanti, min_freq=min_freq, **common)
    elif cls == 'ContinuousDiscretizer':
        o = D.ContinuousDiscretizer(quantitative_features=quanti, min_freq=min_freq, **common)
    elif cls == 'OrdinalDiscretizer':
        o = D.OrdinalDiscretizer(ordinal_features=ordinal, values_orders=orders, min_freq=min_freq, **common)
    elif cls == 'CategoricalDiscretizer':
        o = D.CategoricalDiscretizer(qualitative_features=categ, min_freq=min_freq, **common)
    elif cls == 'StringDiscretizer':
        o = D.StringDiscretizer(qualitative_features=categ + ordinal, **common)
    elif cls == 'ChainedDiscretizer':
        o = D.ChainedDiscretizer(qualitative_features=categ + ordinal, min_freq=min_freq,
                                 chained_orders=[D.GroupedList({k: list(v) for k, v in lvl.items()}) for lvl in spec['chained_orders']],
                                 unknown_handling=p.get('unknown_handling', 'raise'), **common)
    elif cls == 'ChainedThenCarver':
        # the test-suite's main scenario: a ChainedDiscretizer prepares the order of hierarchical features,
        # its values_orders (groups already formed) are handed to a BinaryCarver as ordinal features
        hier = [f for f, d in feats.items() if d.get('chained')]
        chained = D.ChainedDiscretizer(qualitative_features=hier, min_freq=min_freq,
                                       chained_orders=[D.GroupedList({k: list(v) for k, v in lvl.items()}) for lvl in spec['chained_orders']],
                                       unknown_handling='drop', copy=True)
        import contextlib
        import io
        with contextlib.redirect_stdout(io.StringIO()):
            chained.fit(X, y)
        kept_h = [f for f in hier if f in chained.features]
        vo = {f: chained.values_orders[f] for f in kept_h}
        o = carvers.BinaryCarver(sort_by=p.get('sort_by', 'tschuprowt'), min_freq=min_freq,
                                 quantitative_features=quanti, qualitative_features=[f for f in categ if f not in hier],
                                 ordinal_features=kept_h, values_orders=vo, max_n_mod=p.get('max_n_mod', 5),
                                 dropna=bool(p.get('dropna', True)), output_dtype=p.get('output_dtype', 'float'), **common)
    elif cls == 'BaseDiscretizer':
        vo = {f: D.GroupedList({k: list(v) for k, v in spec['vo'][f]}) for f in feats}
        o = D.BaseDiscretizer(features=list(feats), values_orders=vo,
                              input_dtypes={f: ('float' if d['kind'] == 'quanti' else 'str') for f, d in feats.items()},
                              output_dtype=p.get('output_dtype', 'str'), dropna=bool(p.get('dropna', True)),
                              **{'str_nan': STR_NAN, 'str_default': STR_DEFAULT, **common})
    else:
        raise ValueError(cls)
    return o, X, y, fitkw


def plain_scalar(v):
    """json default: numpy scalars as the python numbers they stand for (a JSON round trip turns them into those)"""
    import numpy as np
    if isinstance(v, np.integer):
        return int(v)
    if isinstance(v, np.floating):
        return float(v)
    if isinstance(v, np.bool_):
        return bool(v)
    return str(v)


def norm_json(text):
    """JSON export normalised for what has no meaning: dict key order and the order of the
    feature lists (they are built through set())."""
    d = json.loads(text)
    if isinstance(d.get('features'), list):
        d['features'] = sorted(d['features'])
    if isinstance(d.get('features_casting'), dict):
        d['features_casting'] = {k: sorted(v) for k, v in d['features_casting'].items()}
    if isinstance(d.get('values_orders'), str):
        d['values_orders'] = json.loads(d['values_orders'])
    return json.dumps(d, sort_keys=True)


def outcome_code(exc):
    if exc is None:
        return 0
    return 1 if isinstance(exc, AssertionError) else 2


def exc_text(exc):
    if exc is None:
        return None
    return ''.join(traceback.format_exception_only(type(exc), exc)).strip()[:400]


# ---------------------------------------------------------------------------------------------
# recording
# ---------------------------------------------------------------------------------------------

def project(o):
    """Raw projection of an object's fitted state (python values)."""
    fitted = bool(getattr(o, 'is_fitted', False))
    feats = []
    if fitted:
        for f in sorted(o.features):
            vo = o.values_orders.get(f)
            if vo is None:
                feats.append({'name': f, 'kind': 'quali', 'order': [], 'content': [], 'dropna': True, 'missing_vo': True})
                continue
            feats.append({'name': f, 'kind': 'quanti' if f in o.quantitative_features else 'quali',
                          'order': list(vo), 'content': [[k, list(v)] for k, v in vo.content.items()],
                          'dropna': bool(o.features_dropna.get(f, o.dropna))})
    return {'fitted': fitted, 'dtype': o.output_dtype, 'feats': feats}


def raw_column(o, f):
    """The input column a (possibly casted, multiclass) feature reads."""
    fc = getattr(o, 'features_casting', None) or {}
    for raw, casted in fc.items():
        if f in casted:
            return raw
    return f


def attrs_coherent(o, allow_extra_orders=False):
    feats = set(o.features)
    ok = (feats == set(o.labels_per_values) == set(o.features_dropna) == set(o.input_dtypes))
    ok = ok and feats <= set(o.values_orders) and (allow_extra_orders or feats == set(o.values_orders))
    ok = ok and set(o.qualitative_features) | set(o.quantitative_features) == feats
    ok = ok and not (set(o.qualitative_features) & set(o.quantitative_features))
    ok = ok and len(o.features) == len(feats)
    h = getattr(o, '_history', None)
    if isinstance(h, dict):
        ok = ok and feats <= set(h)
    if feats:       # summary() of an object without any kept feature is judged by the C16 check
        try:
            s = o.summary()
            ok = ok and set(s.index.get_level_values('feature')) == feats
        except Exception:
            ok = False
    return bool(ok)


def frames_equal(a, b):
    import pandas as pd
    if a is None or b is None:
        return a is b
    try:
        if isinstance(a, pd.DataFrame):
            return bool(a.equals(b) and list(a.columns) == list(b.columns) and a.index.equals(b.index)
                        and list(a.dtypes) == list(b.dtypes))
        return bool(a.equals(b) and a.index.equals(b.index) and a.dtype == b.dtype)
    except Exception:
        return False


def column_identical(a, b):
    if len(a) != len(b):
        return False
    for x, y in zip(list(a), list(b)):
        if isnan(x) and isnan(y):
            continue
        if type(x) is not type(y) or x != y:
            return False
    return True


class History:
    """Raw history of one case; objects are numbered 1..4."""

    def __init__(self, case_id, meta=None):
        self.id = case_id
        self.meta = meta or {}
        self.objs = {}
        self.events = []
        self.feature_kinds = {}       # feature name -> 'quanti' | 'quali' (for the codecs)
        self.rankings = (meta or {}).get('rankings') or {}     # ordinal feature -> user ranking (raw values)
        self.str_nan = (meta or {}).get('str_nan') or STR_NAN
        self.str_default = (meta or {}).get('str_default') or STR_DEFAULT
        self.notes = {}

    # -- helpers ------------------------------------------------------------------------------
    def _st(self, idx):
        st = project(self.objs[idx])
        for ft in st['feats']:
            self.feature_kinds.setdefault(ft['name'], ft['kind'])
        return st

    def _cells(self, o, frame, feats):
        cols = {}
        for f in feats:
            rc = raw_column(o, f)
            cols[f] = list(frame[rc]) if (frame is not None and rc in frame.columns) else None
        return cols

    # -- calls --------------------------------------------------------------------------------
    def fit(self, idx, o, X, y, fitkw=None, method='fit'):
        import pandas as pd
        self.objs[idx] = o
        fitkw = fitkw or {}
        Xb, yb = X.copy(deep=True), (y.copy(deep=True) if y is not None else None)
        self.last_X = Xb          # pristine copy: later frames are derived from it, whatever fit did to X
        devb = {k: v.copy(deep=True) for k, v in fitkw.items()}
        exc = None
        out = None
        initial = list(getattr(o, 'features', []))
        try:
            if method == 'fit_transform':
                out = o.fit_transform(X, y, **fitkw)
            else:
                o.fit(X, y, **fitkw) if y is not None else o.fit(X)
        except Exception as e:
            exc = e
        st = self._st(idx)
        kept = [ft['name'] for ft in st['feats']]
        ev = {'ev': 'fit', 'obj': idx, 'outcome': outcome_code(exc), 'exc': exc_text(exc), 'st': st,
              'frame_raw': self._cells(o, Xb, kept), 'attrs_coherent': True, 'dropped_untouched': True,
              'inputs_unchanged': True, 'method': method,
              'plain_categ_raw': [raw_column(o, f) in (self.meta.get('plain_categ') or []) for f in kept]}
        if exc is None:
            ev['attrs_coherent'] = attrs_coherent(o)
            if getattr(o, 'copy', True):
                unchanged = frames_equal(X, Xb) and frames_equal(y, yb)
                for k, v in fitkw.items():
                    unchanged = unchanged and frames_equal(v, devb[k])
                ev['inputs_unchanged'] = bool(unchanged)
            dropped = [f for f in initial if f not in kept and f in Xb.columns]
            if dropped:
                try:
                    res = out if out is not None else o.transform(Xb.copy(deep=True))
                    ev['dropped_untouched'] = all(column_identical(res[f], Xb[f]) for f in dropped)
                except Exception:
                    ev['dropped_untouched'] = True      # rejection is judged by the transform events
        self.events.append(ev)
        if method == 'fit_transform' and exc is None and out is not None:
            # the output of fit_transform is judged like a transform of the training frame
            self._record_transform(idx, Xb, out, None, Xb, seen=True, label='fit_transform', state_before=st)
        return exc is None

    def _record_transform(self, idx, frame_in, out, exc, frame_before, seen, label='transform', same_as=0,
                          same_clause='', state_before=None):
        o = self.objs[idx]
        st = self._st(idx)
        feats = [ft['name'] for ft in (state_before or st)['feats']]
        ev = {'ev': 'transform', 'obj': idx, 'outcome': outcome_code(exc), 'exc': exc_text(exc), 'st': st,
              'frame_raw': self._cells(o, frame_before, feats),
              'out_raw': ({f: list(out[f]) for f in feats} if (exc is None and out is not None and all(f in out.columns for f in feats)) else None),
              'seen': seen, 'same_as': same_as, 'same_clause': same_clause, 'label': label,
              'inputs_unchanged': True, 'shape_ok': True, 'named_raw': None}
        if exc is None and out is not None:
            shape_ok = list(out.index) == list(frame_before.index) and all(c in out.columns for c in frame_before.columns)
            others = [c for c in frame_before.columns if c not in feats and c not in (getattr(o, 'features_casting', {}) or {})]
            for c in others:
                if c in out.columns and not column_identical(out[c], frame_before[c]):
                    shape_ok = False
            if not all(f in out.columns for f in feats):
                shape_ok = False
            ev['shape_ok'] = bool(shape_ok)
        if getattr(o, 'copy', True):
            ev['inputs_unchanged'] = bool(frames_equal(frame_in, frame_before))
        if isinstance(exc, AssertionError):
            msg = str(exc)
            # (a quoted unseen value may spell like another feature's name: "values: ['c0'] of feature 'o2'")
            named = [f for f in feats if f"feature '{f}'" in msg or f"feature '{raw_column(o, f)}'" in msg] or \
                    [f for f in feats if f"'{f}'" in msg or f"'{raw_column(o, f)}'" in msg] or \
                    [f for f in feats if re.search(r'(?<![A-Za-z0-9_])%s(?![A-Za-z0-9_])' % re.escape(str(f)), msg)
                     or re.search(r'(?<![A-Za-z0-9_])%s(?![A-Za-z0-9_])' % re.escape(str(raw_column(o, f))), msg)]
            ev['named_raw'] = named
        self.events.append(ev)
        return len(self.events)

    def transform(self, idx, frame, seen=False, same_as=0, same_clause='', label='transform'):
        o = self.objs[idx]
        before = frame.copy(deep=True)
        st_before = self._st(idx)
        exc = out = None
        try:
            out = o.transform(frame)
        except Exception as e:
            exc = e
        return self._record_transform(idx, frame, out, exc, before, seen, label, same_as, same_clause, st_before)

    def reload(self, src, idx, loader=None):
        from AutoCarver import load_carver
        from AutoCarver.discretizers import load_discretizer
        o = self.objs[src]
        json_ok, exc, text = True, None, None
        o2 = None
        try:
            text = json.dumps(o.to_json())
        except Exception:
            json_ok = False
        ev = {'ev': 'reload', 'obj': idx, 'src': src, 'json_ok': json_ok, 'outcome': 0, 'json_idempotent': True,
              'summary_equal': True, 'history_equal': True}
        if json_ok:
            is_carver = hasattr(o, '_history') and isinstance(getattr(o, '_history'), dict)
            fn = loader or (load_carver if is_carver else load_discretizer)
            try:
                o2 = fn(json.loads(text))
            except Exception as e:
                exc = e
            ev['outcome'] = outcome_code(exc)
            ev['exc'] = exc_text(exc)
            if exc is None:
                try:
                    text2 = json.dumps(o2.to_json())
                    ev['json_idempotent'] = norm_json(text) == norm_json(text2)
                except Exception:
                    ev['json_idempotent'] = False
                def summ(obj):
                    try:
                        return obj.summary(), None
                    except Exception as e2:      # the same failure on both sides is the same behaviour
                        return None, type(e2).__name__
                (s1, x1), (s2, x2) = summ(o), summ(o2)
                if s1 is None or s2 is None:
                    ev['summary_equal'] = (x1 == x2)
                else:
                    try:
                        ev['summary_equal'] = bool(s1.shape == s2.shape and (s1.index == s2.index).all()
                                                   and all(a == b for a, b in zip(s1.values.tolist(), s2.values.tolist())))
                    except Exception:
                        ev['summary_equal'] = False
                # history() of a restored carver tells the same story (raw distribution, tested combinations, verdicts)
                if is_carver and hasattr(o, 'history'):
                    def hist(obj):
                        try:
                            fr = obj.history()
                            keys = ('feature', 'combination', 'viability', 'grouping_nan', 'cramerv', 'tschuprowt', 'kruskal')
                            kept = set(obj.features)
                            rows = [{k: r[k] for k in keys if k in r} for r in fr.reset_index(drop=True).to_dict('records')
                                    if r.get('feature') in kept and 'combination' in r and not isnan(r.get('combination'))]
                            return json.dumps(rows, default=plain_scalar, sort_keys=True), None
                        except Exception as e2:
                            return None, type(e2).__name__
                    (h1, hx1), (h2, hx2) = hist(o), hist(o2)
                    ev['history_equal'] = (h1 == h2) if (h1 is not None and h2 is not None) else (hx1 == hx2)
        if o2 is None:
            o2 = o
        self.objs[idx] = o2
        ev['st'] = self._st(idx)
        self.events.append(ev)
        return exc is None and json_ok

    def update(self, idx, feature, mode, discarded, kept):
        o = self.objs[idx]
        exc = None
        import warnings
        try:
            with warnings.catch_warnings():
                warnings.simplefilter('ignore')
                o.update_discretizer(feature, mode, discarded, kept)
        except Exception as e:
            exc = e
        st = self._st(idx)
        names = [ft['name'] for ft in st['feats']]
        self.events.append({'ev': 'update', 'obj': idx, 'outcome': outcome_code(exc), 'exc': exc_text(exc), 'st': st,
                            'f_name': feature, 'mode': mode, 'd_raw': discarded, 'k_raw': kept})
        return exc is None

    def summary(self, idx, feature=None):
        o = self.objs[idx]
        exc = None
        rows = []
        try:
            s = o.summary(feature) if feature is not None else o.summary()
            s = s.reset_index()
            for _, r in s.iterrows():
                rows.append([r['feature'], r['label'], list(r['content'])])
        except Exception as e:
            exc = e
        st = self._st(idx)
        # history(feature) is the part of history() that concerns the feature (carvers only)
        hist_ok = True
        if feature is not None and exc is None and isinstance(getattr(o, '_history', None), dict) and hasattr(o, 'history'):
            try:
                keys = ('combination', 'viability', 'grouping_nan', 'cramerv', 'tschuprowt', 'kruskal')

                def rows_of(fr, only=None):
                    recs = fr.reset_index(drop=True).to_dict('records') if fr is not None and len(fr) else []
                    return json.dumps([{k: r[k] for k in keys if k in r} for r in recs if only is None or r.get('feature') == only],
                                      default=plain_scalar, sort_keys=True)
                hist_ok = rows_of(o.history(feature)) == rows_of(o.history(), only=feature)
            except Exception:
                hist_ok = False
        self.events.append({'ev': 'summary', 'obj': idx, 'outcome': outcome_code(exc), 'exc': exc_text(exc), 'st': st,
                            'f_name': feature, 'rows_raw': rows, 'history_of_feature_ok': bool(hist_ok)})

    def badcall(self, idx, kind, fn):
        """fn() performs the malformed call on self.objs[idx]."""
        o = self.objs[idx]
        try:
            before = norm_json(json.dumps(o.to_json(), default=str)) if getattr(o, 'is_fitted', False) else None
        except Exception:
            before = None
        exc = None
        try:
            fn()
        except Exception as e:
            exc = e
        try:
            after = norm_json(json.dumps(o.to_json(), default=str)) if getattr(o, 'is_fitted', False) else None
        except Exception:
            after = 'unserialisable'
        self.events.append({'ev': 'badcall', 'obj': idx, 'outcome': outcome_code(exc), 'exc': exc_text(exc),
                            'st': self._st(idx), 'kind': kind, 'json_unchanged': before == after})

    # -- encoding -----------------------------------------------------------------------------
    def encode(self):
        return Encoder(self).run()


class Encoder:
    def __init__(self, h: History):
        self.h = h
        self.quanti_numbers = {}    # feature -> set of finite floats
        self.quali_codes = {}       # feature -> {value: code}
        self.quali_strs = {}        # feature -> set of codes that are python str
        self.labels = {}            # interned other strings

    def _collect_numbers(self, f, vals):
        s = self.quanti_numbers.setdefault(f, set())
        for v in vals:
            if is_number(v) and not isnan(v) and math.isfinite(float(v)):
                s.add(float(v))

    def qcode(self, f, v):
        """quantitative value -> order-isomorphic rank"""
        if isnan(v) or (isinstance(v, str) and v == self.h.str_nan):
            return 0
        if isinstance(v, str):
            return 900_000 + self._intern(('qstr', f, v))
        fv = float(v)
        if math.isinf(fv):
            return INF_CODE if fv > 0 else -INF_CODE
        return self.rank[f][fv]

    def ccode(self, f, v):
        """qualitative value -> identity code (python equality)"""
        if isnan(v) or (isinstance(v, str) and v == self.h.str_nan):
            return 0
        if isinstance(v, str) and v == self.h.str_default:
            return -1
        tbl = self.quali_codes.setdefault(f, {})
        try:
            key = v
            hash(key)
        except TypeError:
            key = repr(v)
        if key not in tbl:
            tbl[key] = len(tbl) + 1
        c = tbl[key]
        if isinstance(v, str):
            self.quali_strs.setdefault(f, set()).add(c)
        return c

    def _intern(self, key):
        if key not in self.labels:
            self.labels[key] = len(self.labels) + 1
        return self.labels[key]

    def _ranking(self, f):
        h = self.h
        raw = None
        for name, rk in h.rankings.items():
            if f == name or f.startswith(name + '_'):      # multiclass casted names f_<class>
                raw = rk
        if raw is None or h.feature_kinds.get(f) == 'quanti':
            return []
        return [self.ccode(f, strform(v)) for v in raw]

    def vcode(self, f, v):
        return self.qcode(f, v) if self.h.feature_kinds.get(f) == 'quanti' else self.ccode(f, v)

    def cell(self, f, v):
        if self.h.feature_kinds.get(f) == 'quanti':
            return self.qcode(f, v)
        if isnan(v):
            return [0, 0]
        return [self.ccode(f, v), self.ccode(f, strform(v))]

    _INTERVAL = re.compile(r'^(?:(\S+) < )?x(?: <= (\S+))?$')

    def _bound_code(self, f, txt, bounds):
        """text of an interval bound -> code of the one boundary of the state that prints like it
        (-2: none does, -3: several do)"""
        m = re.fullmatch(r'-?\d\.(\d+)e[+-]\d+', txt)
        if not m:
            return None      # not a number ("x <= nan" is the label of a feature left with one group): identity only
        p = len(m.group(1))
        hits = [b for b in bounds if f'{b:.{p}e}'.strip() == txt]
        if len(hits) != 1:
            return -2 if not hits else -3
        return self.rank[f][float(hits[0])]

    def out(self, f, lab, bounds=None):
        import numpy as np
        if isnan(lab):
            return [0, 0]
        if isinstance(lab, (bool, np.bool_)):
            return [4, 0]
        if is_number(lab):
            fl = float(lab)
            return [1, int(fl)] if fl.is_integer() and abs(fl) < 100000 else [4, 0]
        if isinstance(lab, str):
            if lab == self.h.str_nan:
                return [2, 0]
            if self.h.feature_kinds.get(f) != 'quanti':
                if lab == self.h.str_default:
                    return [2, -1]
                tbl = self.quali_codes.get(f, {})
                if lab in tbl:
                    return [2, tbl[lab]]
            m = self._INTERVAL.match(lab) if bounds is not None else None
            if m and (m.group(1) or m.group(2)):
                lo = -INF_CODE if m.group(1) is None else self._bound_code(f, m.group(1), bounds)
                hi = INF_CODE if m.group(2) is None else self._bound_code(f, m.group(2), bounds)
                if lo is not None and hi is not None:
                    return [3, self._intern(('lab', lab)), lo, hi]
            return [3, self._intern(('lab', lab))]
        return [4, 0]

    def _bounds(self, ev, f):
        """finite boundaries of quantitative feature f in the state logged with the event"""
        if self.h.feature_kinds.get(f) != 'quanti':
            return None
        for ft in ev['st']['feats']:
            if ft['name'] == f:
                return [float(v) for v in ft['order'] if is_number(v) and not isnan(v) and math.isfinite(float(v))]
        return None

    def st(self, st):
        feats = []
        for ft in st['feats']:
            f = ft['name']
            feats.append({'kind': ft['kind'], 'order': [self.vcode(f, v) for v in ft['order']],
                          'content': [[self.vcode(f, k), [self.vcode(f, m) for m in mem]] for k, mem in ft['content']],
                          'dropna': bool(ft['dropna'])})
        return {'fitted': bool(st['fitted']), 'dtype': st['dtype'], 'feats': feats}

    def run(self):
        h = self.h
        # phase 1: collect the numbers of every quantitative feature to build order-isomorphic ranks
        for ev in h.events:
            for ft in ev['st']['feats']:
                if ft['kind'] == 'quanti':
                    self._collect_numbers(ft['name'], ft['order'])
                    for k, mem in ft['content']:
                        self._collect_numbers(ft['name'], [k] + list(mem))
            for f, vals in (ev.get('frame_raw') or {}).items():
                if h.feature_kinds.get(f) == 'quanti' and vals is not None:
                    self._collect_numbers(f, vals)
            if ev['ev'] == 'update' and h.feature_kinds.get(ev['f_name']) == 'quanti':
                self._collect_numbers(ev['f_name'], [ev['d_raw'], ev['k_raw']])
        self.rank = {f: {v: i + 1 for i, v in enumerate(sorted(s))} for f, s in self.quanti_numbers.items()}
        # phase 2: states first (so that known values get their codes before labels are looked up)
        enc_states = [self.st(ev['st']) for ev in h.events]
        out_events = []
        for ev, st in zip(h.events, enc_states):
            names = [ft['name'] for ft in ev['st']['feats']]
            e = {'ev': ev['ev'], 'obj': ev['obj'], 'outcome': ev['outcome'], 'st': st}
            if ev['ev'] == 'fit':
                e['frame'] = [[self.cell(f, v) for v in (ev['frame_raw'].get(f) or [])] for f in names]
                e['ranking'] = [self._ranking(f) for f in names]
                e['attrs_coherent'] = bool(ev['attrs_coherent'])
                e['dropped_untouched'] = bool(ev['dropped_untouched'])
                e['inputs_unchanged'] = bool(ev['inputs_unchanged'])
                mf = self.h.meta.get('min_freq') or []
                e['mf'] = list(mf) if len(mf) == 2 else [0, 1]
                e['plain_categ'] = [bool(b) for b in (ev.get('plain_categ_raw') or [False] * len(names))]
            elif ev['ev'] == 'transform':
                fr = ev['frame_raw']
                fnames = list(fr.keys())
                lacks = str(ev.get('label', '')).startswith('lacks_')
                lacking_kept = any(fr[f] is None for f in fnames)
                if lacks:
                    # a frame lacking a column given at fit: only "a restored object behaves like its source" is judged
                    e['ev'] = 'transform_lacking'
                elif lacking_kept:
                    # a fitted column is missing from the frame: the call is judged as a malformed call elsewhere
                    e['ev'] = 'skip'
                e['frame'] = [[self.cell(f, v) for v in (fr.get(f) or [])] for f in fnames]
                e['out'] = ([[self.out(f, v, self._bounds(ev, f)) for v in ev['out_raw'][f]] for f in fnames]
                            if (ev.get('out_raw') and not lacking_kept) else [[] for _ in fnames])
                e['ranking'] = [self._ranking(f) for f in fnames]
                seen = ev['seen']
                e['seen'] = [bool(seen)] * len(fnames) if not isinstance(seen, dict) else [bool(seen.get(f)) for f in fnames]
                e['same_as'] = ev['same_as']
                e['same_clause'] = ev['same_clause'] or ('C06_behaviour' if lacks else 'C07_repeat_differs')
                e['inputs_unchanged'] = bool(ev['inputs_unchanged'])
                e['shape_ok'] = bool(ev['shape_ok'])
                named = ev.get('named_raw') or []
                e['named'] = [fnames.index(nm) + 1 for nm in named if nm in fnames]      # every feature the message names
            elif ev['ev'] == 'reload':
                e.update({'src': ev['src'], 'json_ok': bool(ev['json_ok']), 'json_idempotent': bool(ev['json_idempotent']),
                          'summary_equal': bool(ev['summary_equal']), 'history_equal': bool(ev.get('history_equal', True))})
            elif ev['ev'] == 'update':
                f = ev['f_name']
                e['f'] = names.index(f) + 1 if f in names else 0
                e['mode'] = ev['mode']
                e['d'] = self.vcode(f, ev['d_raw'])
                e['k'] = self.vcode(f, ev['k_raw'])
                if e['f'] == 0:
                    e['ev'] = 'skip'
            elif ev['ev'] == 'summary':
                f = ev['f_name']
                e['f'] = (names.index(f) + 1) if (f is not None and f in names) else 0
                rows = []
                for (fn, lab, content) in ev['rows_raw']:
                    fi = names.index(fn) + 1 if fn in names else 0
                    kind = h.feature_kinds.get(fn)
                    if kind == 'quanti':
                        cont = [0] if any(isinstance(c, str) and c == h.str_nan for c in content) else []
                    else:
                        cont = [self.ccode(fn, c) for c in content]
                    rows.append([fi, self.out(fn, lab), cont])
                e['rows'] = rows
                e['strvals'] = [sorted(self.quali_strs.get(fn, set())) for fn in names]
                e['history_of_feature_ok'] = bool(ev.get('history_of_feature_ok', True))
            elif ev['ev'] == 'badcall':
                e['kind'] = ev['kind']
                e['json_unchanged'] = bool(ev['json_unchanged'])
            out_events.append(e)
        # skipped events must not shift the event indices used by same_as: replace them by no-ops
        final = []
        for e in out_events:
            if e['ev'] == 'skip':
                final.append({'ev': 'noop', 'obj': e['obj'], 'outcome': 0, 'st': e['st']})
            else:
                final.append(e)
        return {'id': h.id, 'events': final, 'meta': h.meta}
