"""Generators of object specs and call histories for the estimator life-cycle checks
(C04, C05, C06, C07, C08, C16, C17, C19).  Everything derives from a seed."""
from __future__ import annotations

import math
import random

from . import estimator as E

LETTERS = ['a', 'b', 'c', 'd', 'e', 'f', 'g', 'h']
ALL_CLASSES = ['BinaryCarver', 'ContinuousCarver', 'MulticlassCarver', 'Discretizer', 'QualitativeDiscretizer',
               'QuantitativeDiscretizer', 'ContinuousDiscretizer', 'OrdinalDiscretizer', 'CategoricalDiscretizer',
               'StringDiscretizer', 'ChainedThenCarver', 'ChainedDiscretizer']
ACCEPTS = {
    'BinaryCarver': ('quanti', 'categ', 'ordinal'), 'ContinuousCarver': ('quanti', 'categ', 'ordinal'),
    'MulticlassCarver': ('quanti', 'categ', 'ordinal'), 'Discretizer': ('quanti', 'categ', 'ordinal'),
    'QualitativeDiscretizer': ('categ', 'ordinal'), 'QuantitativeDiscretizer': ('quanti',),
    'ContinuousDiscretizer': ('quanti',), 'OrdinalDiscretizer': ('ordinal',), 'CategoricalDiscretizer': ('categ',),
    'StringDiscretizer': ('categ',), 'ChainedThenCarver': ('quanti', 'categ'), 'ChainedDiscretizer': ('categ',),
}


def gen_quanti(rng, n, pnan, style=None):
    style = style or rng.choice(['levels', 'levels', 'jitter', 'close', 'big', 'tiny', 'uniform', 'spike', 'int', 'ulp'])
    nlev = rng.randint(2, 7)
    lv = [rng.randrange(nlev) for _ in range(n)]
    if style == 'levels':
        vals = [float(x) for x in lv]
    elif style == 'int':
        vals = [x * 3 - 4 for x in lv]
    elif style == 'jitter':
        vals = [x + rng.choice([0, 0.25, 0.5]) for x in lv]
    elif style == 'close':      # boundaries equal to 4 significant digits
        vals = [202301.0 + x for x in lv]
    elif style == 'big':
        vals = [1e15 + 2.0 * x for x in lv]
    elif style == 'ulp':        # consecutive representable doubles
        import numpy as np
        base = rng.choice([1.0, 1000.0, 0.1])
        steps = [base]
        for _ in range(nlev):
            steps.append(float(np.nextafter(steps[-1], np.inf)))
        vals = [steps[x] for x in lv]
    elif style == 'tiny':
        vals = [1e-9 * (x + 1) for x in lv]
    elif style == 'spike':
        sp = rng.randrange(nlev)
        vals = [float(sp) if rng.random() < 0.5 else float(x) + rng.random() for x in lv]
    else:
        vals = [round(rng.uniform(-5, 5), 2) for _ in lv]
    vals = [None if rng.random() < pnan else v for v in vals]
    return vals, lv


def gen_categ(rng, n, pnan, strings_only=False):
    nlev = rng.randint(2, 6)
    lv = [rng.randrange(nlev) for _ in range(n)]
    style = 'str' if strings_only else rng.choice(['str', 'str', 'numstr', 'int', 'intfloat', 'mixed'])
    if style == 'str':
        cats = ['c%d' % i for i in range(nlev)]
    elif style == 'numstr':
        cats = [str(i + 1) for i in range(nlev)]
    elif style == 'int':
        cats = [i + 1 for i in range(nlev)]
    elif style == 'intfloat':
        cats = [float(i + 1) for i in range(nlev)]
    else:
        cats = [('c%d' % i if i % 2 else i + 10) for i in range(nlev)]
    if rng.random() < 0.3:              # a rare level
        lv = [x if (x != nlev - 1 or rng.random() < 0.15) else 0 for x in lv]
    vals = [None if rng.random() < pnan else cats[x] for x in lv]
    return vals, lv, cats


def gen_ordinal(rng, n, pnan):
    nlev = rng.randint(2, 6)
    lv = [rng.randrange(nlev) for _ in range(n)]
    order = LETTERS[:nlev]
    style = rng.choice(['plain', 'plain', 'never', 'reversed', 'numstr', 'numcode', 'numcode'])
    if style == 'numcode':
        # numeric codes (held as numbers in the data) ranked in an arbitrary, non-sorted order
        codes = list(range(nlev))
        rng.shuffle(codes)
        order = [str(c) for c in codes]
        vals = [None if rng.random() < pnan else codes[x] for x in lv]
        return vals, lv, order
    if style == 'numstr':
        order = [str(i + 1) for i in range(nlev)]
    if style == 'reversed':
        order = list(reversed(order))
    vals = [None if rng.random() < pnan else order[x] for x in lv]
    if style == 'never':
        order = order[:1] + ['zz'] + order[1:]
    return vals, lv, order


def target_for(rng, cls, lv, n):
    nlev = max(lv) + 1 if lv else 1
    if cls == 'ContinuousCarver':
        means = [rng.randint(0, 6) for _ in range(nlev)]
        y = [max(0, min(9, means[x] + rng.choice([-1, 0, 0, 1]))) for x in lv]
        if len(set(y)) < 3 and n >= 3:
            y[:3] = [0, 4, 9]
        return y
    if cls == 'MulticlassCarver':
        classes = rng.choice([[0, 1, 2], [1, 2, 10], ['a', 'b', 'c'], [0, 1, 2, 3]])
        pref = [rng.randrange(len(classes)) for _ in range(nlev)]
        y = [classes[pref[x]] if rng.random() < 0.6 else rng.choice(classes) for x in lv]
        for i, c in enumerate(classes):
            y[i % n] = c
        return y
    rates = [rng.choice([0, 0.25, 1 / 3, 0.5, 0.5, 2 / 3, 0.75, 1]) for _ in range(nlev)]
    y = [1 if rng.random() < rates[x] else 0 for x in lv]
    if sum(y) == 0:
        y[0] = 1
    if sum(y) == len(y):
        y[0] = 0
    return y


def random_object_spec(rng, cls=None, n=None, nfeat=None, degenerate=False):
    cls = cls or rng.choice(ALL_CLASSES)
    n = n or rng.randint(12, 48)
    kinds_ok = ACCEPTS[cls]
    nfeat = nfeat or rng.randint(1, 3)
    feats = {}
    first_lv = None
    for j in range(nfeat):
        kind = rng.choice(kinds_ok)
        pnan = rng.choice([0, 0, 0.1, 0.25])
        if cls in ('OrdinalDiscretizer', 'CategoricalDiscretizer') and rng.random() < 0.5:
            pnan = 0
        if kind == 'quanti':
            vals, lv = gen_quanti(rng, n, pnan)
            d = {'kind': kind, 'values': vals}
        elif kind == 'categ':
            vals, lv, cats = gen_categ(rng, n, pnan, strings_only=(cls == 'CategoricalDiscretizer'))
            d = {'kind': kind, 'values': vals}
            if all(isinstance(c, str) for c in cats) and cls not in ('CategoricalDiscretizer', 'ChainedDiscretizer') and rng.random() < 0.15:
                # the known categories listed in values_orders, in an order unrelated to the target
                listed = list(cats)
                rng.shuffle(listed)
                d['listed'] = listed
        else:
            vals, lv, order = gen_ordinal(rng, n, pnan)
            d = {'kind': kind, 'values': vals, 'order': order}
        if degenerate:
            mode = rng.choice(['const', 'allnan', 'unique', 'rare', 'tiny', 'one_plus_nan', 'none'])
            if mode == 'const' and kind != 'ordinal':
                d['values'] = [d['values'][0] if d['values'][0] is not None else (1.0 if kind == 'quanti' else 'k')] * n
            elif mode == 'allnan' and kind == 'quanti':
                d['values'] = [None] * n
            elif mode == 'unique' and kind == 'quanti':
                d['values'] = [float(i) * 1.5 for i in range(n)]
            elif mode == 'unique' and kind == 'categ':
                d['values'] = ['u%d' % i for i in range(n)]
            elif mode == 'rare' and kind == 'quanti':
                d['values'] = [float(i % 17) for i in range(n)]
            elif mode in ('unique', 'rare') and kind == 'ordinal':
                # many equally frequent ranked levels: every modality rarer than min_freq
                lv12 = ['m%02d' % i for i in range(12)]
                d['values'] = [lv12[i % 12] for i in range(n)]
                d['order'] = lv12
            elif mode == 'one_plus_nan' and kind != 'ordinal':
                d['values'] = [(None if i % 3 == 0 else (2.0 if kind == 'quanti' else 'k')) for i in range(n)]
        feats[f'{kind[0]}{j}'] = d
        if first_lv is None:
            first_lv = lv
    spec = {'cls': cls, 'features': feats, 'y': target_for(rng, cls, first_lv, n)}
    if cls == 'ChainedDiscretizer':
        feats.clear()               # only hierarchical features
    if cls in ('ChainedThenCarver', 'ChainedDiscretizer'):
        # one hierarchical feature: leaves -> groups -> top (never-observed members included)
        leaves = ['Low-', 'Low', 'Low+', 'Medium-', 'Medium', 'Medium+', 'High-', 'High', 'High+', 'ALONE'][:rng.randint(5, 10)]
        lvl1 = {}
        for v in leaves:
            g = 'Lows' if v.startswith('Low') else 'Mediums' if v.startswith('Medium') else 'Highs' if v.startswith('High') else 'ALONE'
            lvl1.setdefault(g, []).append(v)
        lvl1 = {g: mem + ([g] if g not in mem else []) for g, mem in lvl1.items()}
        lvl2 = {}
        for g in lvl1:
            top = 'Worst' if g in ('Lows', 'Mediums') else 'Best'
            lvl2.setdefault(top, []).append(g)
        lvl2 = {t: mem + [t] for t, mem in lvl2.items()}
        w = [rng.choice([0, 1, 2, 4, 8]) for _ in leaves]
        if sum(w) == 0:
            w[0] = 4
        pool = [v for v, k in zip(leaves, w) for _ in range(k)]
        hv = [None if rng.random() < 0.08 else rng.choice(pool) for _ in range(n)]
        if cls == 'ChainedDiscretizer' and rng.random() < 0.5:
            for i in rng.sample(range(n), min(3, n)):          # values outside the hierarchy (dropped with the missing ones)
                hv[i] = rng.choice(['zz_unknown', 'yy_unknown'])
        feats['h0'] = {'kind': 'categ', 'values': hv, 'chained': True}
        spec['chained_orders'] = [lvl1, lvl2]
    mf = rng.choice([[1, 10], [3, 20], [1, 5], [1, 4], [3, 10], [1, 20]])
    spec['params'] = {
        'sort_by': rng.choice(['cramerv', 'tschuprowt']),
        'min_freq': mf,
        'min_freq_mod': rng.choice([None, None, [1, 10], [1, 5]]),
        'max_n_mod': rng.choice([2, 3, 4, 5]),
        'dropna': rng.random() < 0.6,
        'output_dtype': rng.choice(['float', 'str']),
        'copy': True,
    }
    if rng.random() < 0.15 and any(d['kind'] == 'quanti' for d in feats.values()):
        spec['float_dtype'] = 'float32'
    if rng.random() < 0.3:
        spec['extra_column'] = True
    if rng.random() < 0.25:
        spec['int_dtype_columns'] = True      # (only has an effect on qualitative columns made of integers, without missing value)
    if cls in ('BinaryCarver', 'ContinuousCarver', 'MulticlassCarver') and rng.random() < 0.3:
        # a dev sample: a bootstrap of the training rows in which one modality may become rare
        idx = [rng.randrange(n) for _ in range(rng.randint(12, 40))]
        classes = list(dict.fromkeys(spec['y']))
        idx[:len(classes)] = [spec['y'].index(c) for c in classes]
        spec['dev'] = {'features': {f: [d['values'][i] for i in idx] for f, d in feats.items()}, 'y': [spec['y'][i] for i in idx]}
    if cls == 'ChainedDiscretizer':
        spec['params']['unknown_handling'] = 'drop'
    if rng.random() < 0.15:      # user-chosen sentinels for missing / rare values
        spec['params']['str_nan'] = rng.choice(['MISSING', 'VALUE_NOT_AVAILABLE_AT_ALL_XYZ'])      # (30 characters)
        spec['params']['str_default'] = 'RARE'
    return spec


# ---------------------------------------------------------------------------------------------
# derived frames
# ---------------------------------------------------------------------------------------------

def boundaries(o, f):
    return [float(v) for v in o.values_orders[f] if E.is_number(v) and math.isfinite(float(v))]


def probe_frames(rng, o, X, spec, count=4):
    """New frames having the fitted columns: edges, outside the range, unseen categories, missing
    values where none were seen, empty and single-row frames."""
    import numpy as np
    import pandas as pd
    frames = []
    feats = list(X.columns)
    kept = list(o.features)
    n = rng.randint(3, 9)

    def base_rows(k):
        idx = [rng.randrange(len(X)) for _ in range(k)]
        return X.iloc[idx].reset_index(drop=True).copy(deep=True)

    # 1. numeric probes on every kept quantitative feature
    fr = base_rows(n)
    for f in kept:
        rc = E.raw_column(o, f)
        if f in o.quantitative_features and rc in fr.columns:
            bs = boundaries(o, f) or [0.0]
            pts = []
            for b in bs:
                pts += [b, float(np.nextafter(b, np.inf)), float(np.nextafter(b, -np.inf))]
            pts += [min(bs) - 1.0, max(bs) + 1.0, -1.7e308, 1.7e308, (min(bs) + max(bs)) / 2]
            vals = [rng.choice(pts) for _ in range(n)]
            fr[rc] = pd.Series(vals, dtype=X[rc].dtype)
    frames.append(('numeric_probes', fr))
    # 2. unseen categories
    fr = base_rows(n)
    for f in kept:
        rc = E.raw_column(o, f)
        if f in o.qualitative_features and rc in fr.columns and rng.random() < 0.8:
            new = rng.choice(['never_seen', 'ZZ9', 77, 77.0, '77', 3.5])
            others = [g for g in kept if g != f and g in o.qualitative_features]
            if others and rng.random() < 0.4:
                # a value that is unseen here but is a known modality of another feature
                known = [v for v in o.values_orders[rng.choice(others)].values() if isinstance(v, str) and v not in (E.STR_NAN, E.STR_DEFAULT)]
                if known:
                    new = rng.choice(known)
            col = list(fr[rc])
            col[rng.randrange(n)] = new
            fr[rc] = pd.Series(col, dtype=object)
            if 'zz_extra' in fr.columns and rng.random() < 0.6:
                ex = list(fr['zz_extra'])
                ex[rng.randrange(n)] = new                      # the same value sits in a non-feature column too
                fr['zz_extra'] = pd.Series(ex, dtype=object)
    frames.append(('unseen_categories', fr))
    # 3. a missing value injected in one feature
    fr = base_rows(n)
    if kept:
        f = rng.choice(kept)
        rc = E.raw_column(o, f)
        if rc in fr.columns:
            col = list(fr[rc])
            col[rng.randrange(n)] = np.nan
            fr[rc] = pd.Series(col, dtype=(object if str(X[rc].dtype).startswith('int') else X[rc].dtype))
    frames.append(('missing_injected', fr))
    # 4. empty and single-row frames
    frames.append(('empty', X.iloc[0:0].copy(deep=True)))
    frames.append(('single_row', base_rows(1)))
    rng.shuffle(frames)
    return frames[:count]


def row_variants(rng, X):
    """subset / permutation / re-indexing of the rows of X (unique index)."""
    n = len(X)
    out = []
    idx = [i for i in range(n) if rng.random() < 0.5] or [0]
    out.append(('subset', X.iloc[idx].copy(deep=True)))
    perm = list(range(n))
    rng.shuffle(perm)
    out.append(('permutation', X.iloc[perm].copy(deep=True)))
    re = X.copy(deep=True)
    kind = rng.choice(['offset', 'shuffled', 'strings'])
    if kind == 'offset':
        re.index = [i + 1000 for i in range(n)]
    elif kind == 'shuffled':
        ids = list(range(n))
        rng.shuffle(ids)
        re.index = ids
    else:
        re.index = ['r%d' % i for i in range(n)]
    out.append(('reindexed_' + kind, re))
    return out


# ---------------------------------------------------------------------------------------------
# histories
# ---------------------------------------------------------------------------------------------

def _new(kind, seed, spec):
    return E.History(f'{kind}-{seed}', {'driver': 'est_gen.gen_case', 'args': {'kind': kind, 'seed': seed}, 'cls': spec['cls'],
                                        'rankings': {f: list(d['order']) for f, d in spec['features'].items() if d.get('order') is not None},
                                        'str_nan': spec['params'].get('str_nan'), 'str_default': spec['params'].get('str_default'),
                                        # plain categorical features of classes that group rare categories into the default modality
                                        'min_freq': list(spec['params'].get('min_freq') or []),
                                        'plain_categ': [f for f, d in spec['features'].items() if d['kind'] == 'categ' and not d.get('chained') and not d.get('preset')]
                                        if spec['cls'] in ('Discretizer', 'QualitativeDiscretizer', 'CategoricalDiscretizer', 'BinaryCarver', 'ContinuousCarver',
                                                           'MulticlassCarver') else [],
                                        'spec_summary': {'cls': spec['cls'], 'n': len(spec['y']), 'features': {f: d['kind'] for f, d in spec['features'].items()},
                                                         'params': spec['params']}})


def hist_c04(seed, cls=None):
    rng = random.Random(seed)
    spec = random_object_spec(rng, cls)
    o, X, y, kw = E.build(spec)
    h = _new('c04', seed, spec)
    if not h.fit(1, o, X, y, kw):
        return h
    X = h.last_X
    # observers must not disturb the mapping: summary() / summary(feature) / history() before transforming
    if rng.random() < 0.5 and h.objs[1].features:
        h.summary(1, rng.choice([None] + list(h.objs[1].features)))
    t1 = h.transform(1, X.copy(deep=True), seen=True, label='train')
    if h.reload(1, 2):
        if rng.random() < 0.5 and h.objs[2].features:
            h.summary(2, rng.choice(list(h.objs[2].features)))
        h.transform(2, X.copy(deep=True), seen=True, same_as=t1, same_clause='C06_behaviour', label='train_reloaded')
    return h


def hist_c05(seed, cls=None):
    rng = random.Random(seed)
    if cls is None and seed % 12 == 0:
        # three quantitative features fitted and transformed by two worker processes (a real multiprocessing.Pool):
        # every fitted feature is transformed, whatever the ratio of features to workers
        spec = random_object_spec(rng, 'QuantitativeDiscretizer', nfeat=3)
        spec['cls'] = rng.choice(['QuantitativeDiscretizer', 'Discretizer', 'BinaryCarver'])
        spec['params']['n_jobs'] = 2
    else:
        spec = random_object_spec(rng, cls)
    o, X, y, kw = E.build(spec)
    h = _new('c05', seed, spec)
    if not h.fit(1, o, X, y, kw):
        return h
    X = h.last_X
    for label, fr in probe_frames(rng, o, X, spec, count=5):
        h.transform(1, fr, seen=False, label=label)
    return h


def hist_c06(seed, cls=None):
    rng = random.Random(seed)
    spec = random_object_spec(rng, cls or rng.choice(['BinaryCarver', 'ContinuousCarver', 'MulticlassCarver', 'Discretizer',
                                                      'QualitativeDiscretizer', 'QuantitativeDiscretizer', 'BinaryCarver']))
    if rng.random() < 0.25 and any(d['kind'] == 'quanti' for d in spec['features'].values()):
        spec['float_dtype'] = 'float32'
    o, X, y, kw = E.build(spec)
    h = _new('c06', seed, spec)
    if not h.fit(1, o, X, y, kw):
        return h
    X = h.last_X
    if rng.random() < 0.4:
        _random_edits(rng, h, 1, X, n_edits=rng.randint(1, 2))
    if not h.reload(1, 2):
        return h
    frames = [('train', X.copy(deep=True))] + probe_frames(rng, h.objs[1], X, spec, count=3)
    if spec.get('float_dtype') == 'float32':
        # the same training values held as float64 (a frame read back from another source)
        wide = X.copy(deep=True)
        for c in wide.columns:
            if str(wide[c].dtype) == 'float32':
                wide[c] = wide[c].astype('float64')
        frames.append(('train_as_float64', wide))
    # frames lacking one of the columns the object was given at fit -- the column of a kept feature, of a feature that was
    # dropped, or (MulticlassCarver) of a feature no class kept: the restored object refuses what its source refuses
    given = [c for c in X.columns if c in spec['features']]
    rng.shuffle(given)
    for c in given[:2]:
        frames.append((f'lacks_{c}', X.drop(columns=[c])))
    for label, fr in frames:
        t1 = h.transform(1, fr.copy(deep=True), seen=label.startswith('train'), label=label)
        h.transform(2, fr.copy(deep=True), seen=label.startswith('train'), same_as=t1, same_clause='C06_behaviour', label=label + '_reloaded')
    return h


def hist_c07(seed, cls=None):
    rng = random.Random(seed)
    if cls is None and rng.random() < 0.1:
        spec = missing_like_zero_spec(rng)      # missing values end inside a bucket of quantiles (dropna=True)
    else:
        spec = random_object_spec(rng, cls)
    o, X, y, kw = E.build(spec)
    h = _new('c07', seed, spec)
    ok = h.fit(1, o, X, y, kw, method='fit_transform')
    if not ok:
        return h
    X = h.last_X
    ft_event = len(h.events)             # the transform event recorded for fit_transform's output
    o2, X2, y2, kw2 = E.build(spec)
    if h.fit(2, o2, X2, y2, kw2):
        h.transform(2, X2.copy(deep=True), seen=True, same_as=ft_event, same_clause='C07_fit_transform_differs', label='fit_then_transform')
    variants = row_variants(rng, X)
    probes = probe_frames(rng, h.objs[1], X, spec, count=2)
    seq = [('train', X.copy(deep=True))] + variants + probes + [('train_again', X.copy(deep=True))] + variants[:1]
    rng.shuffle(seq)
    for label, fr in seq:
        h.transform(1, fr.copy(deep=True), seen=not label.startswith(('numeric', 'unseen', 'missing', 'empty', 'single')), label=label)
    return h


def hist_c08(seed, cls=None):
    rng = random.Random(seed)
    r = rng.random()
    if cls is None and r < 0.1:
        spec = missing_like_zero_spec(rng)
    elif cls is None and r < 0.2:
        spec = sparse_columns_spec(rng)
    else:
        spec = random_object_spec(rng, cls, n=rng.choice([2, 3, 5, 8, 10, 20, 40]), degenerate=True)
    if seed % 5 == 0 and spec['cls'] in ('BinaryCarver', 'ContinuousCarver', 'MulticlassCarver'):
        spec['params']['dup_names'] = True
    o, X, y, kw = E.build(spec)
    h = _new('c08', seed, spec)
    if h.fit(1, o, X, y, kw):
        h.transform(1, h.last_X.copy(deep=True), seen=True, label='train')
    return h


def nested_names(spec):
    """Rename the features so that the first name is part of every other one ('q0', 'c1q0', 'o2q0'):
    `summary(f)` / `history(f)` are about the feature called f, not about names that contain f."""
    names = [f for f, d in spec['features'].items() if not d.get('chained')]
    if len(names) < 2:
        return spec
    ren = {f: (f if i == 0 else f + names[0]) for i, f in enumerate(names)}
    spec['features'] = {ren.get(f, f): d for f, d in spec['features'].items()}
    if spec.get('dev'):
        spec['dev']['features'] = {ren.get(f, f): v for f, v in spec['dev']['features'].items()}
    return spec


def hist_c16(seed, cls=None):
    rng = random.Random(seed)
    spec = random_object_spec(rng, cls, nfeat=rng.randint(2, 3))
    if seed % 4 == 0:
        spec = nested_names(spec)
    o, X, y, kw = E.build(spec)
    h = _new('c16', seed, spec)
    if not h.fit(1, o, X, y, kw):
        return h
    X = h.last_X
    h.transform(1, X.copy(deep=True), seen=True, label='train')
    if rng.random() < 0.35:
        o1 = h.objs[1]
        holes = [f for f in o1.features if f in getattr(o1, 'qualitative_features', []) and not o1.features_dropna.get(f, True)
                 and any(isinstance(k, str) and k == h.str_nan for k in o1.values_orders[f])
                 and any(not (isinstance(k, str) and k == h.str_nan) for k in o1.values_orders[f])]
        if holes and rng.random() < 0.6:
            # the missing values of a feature that kept them apart are sent, by hand, into an existing group
            f = rng.choice(holes)
            h.update(1, f, 'group', float('nan'), rng.choice([k for k in o1.values_orders[f] if not (isinstance(k, str) and k == h.str_nan)]))
        else:
            _random_edits(rng, h, 1, X, n_edits=1)
    h.summary(1)
    for f in list(h.objs[1].features):
        h.summary(1, f)
    if rng.random() < 0.5:
        h.transform(1, X.copy(deep=True), seen=True, label='train_after_summary')
    if rng.random() < 0.5 and h.reload(1, 2):
        h.summary(2)
    return h


def _edit_candidates(rng, o, f, X):
    """(mode, discarded, kept, valid_for_C17) proposals for feature f."""
    vo = o.values_orders[f]
    leaders = list(vo)
    str_nan = getattr(o, 'str_nan', None) or E.STR_NAN
    nan_here = str_nan in leaders
    non_nan = [v for v in leaders if not (isinstance(v, str) and v == str_nan)]
    out = []
    quanti = f in o.quantitative_features
    ordinal = f in getattr(o, 'ordinal_features', [])
    if len(non_nan) >= 2:
        i = rng.randrange(len(non_nan) - 1)
        if quanti:
            out.append(('group', non_nan[i], non_nan[i + 1]))           # into the upper neighbour
        elif ordinal:
            a, b = non_nan[i], non_nan[i + 1]
            out.append(('group', a, b) if rng.random() < 0.5 else ('group', b, a))
        else:
            a, b = rng.sample(non_nan, 2)
            out.append(('group', a, b))
    if non_nan and (nan_here or rng.random() < 0.3):
        # missing values into an existing group (also for a feature that had none at fit: the edit
        # declares where future missing values go)
        out.append(('group', float('nan'), rng.choice(non_nan)))
    if non_nan:
        ldr = rng.choice(non_nan)
        if quanti:
            fin = [v for v in non_nan if math.isfinite(float(v))]
            if fin:
                ldr = rng.choice(fin)
                vals = sorted(set(float(v) for v in X[E.raw_column(o, f)] if not E.isnan(v)))
                pos = fin.index(ldr)
                upper = fin[pos + 1] if pos + 1 < len(fin) else None
                nxt = [v for v in vals if v > ldr]
                hi = min(nxt) if nxt else ldr + 2.0
                if upper is not None:
                    hi = min(hi, upper)
                new = (ldr + hi) / 2
                if ldr < new < hi:
                    out.append(('replace', ldr, new))
        else:
            out.append(('replace', ldr, 'renamed_%d' % rng.randrange(1000)))
    return out


def _random_edits(rng, h, idx, X, n_edits=2):
    done = 0
    for _ in range(n_edits):
        o = h.objs[idx]
        feats = list(o.features)
        if not feats:
            return done
        f = rng.choice(feats)
        cands = _edit_candidates(rng, o, f, X)
        if not cands:
            continue
        mode, d, k = rng.choice(cands)
        h.update(idx, f, mode, d, k)
        done += 1
    return done


def multiclass_ordinal_spec(rng):
    """A MulticlassCarver sample whose ordinal feature keeps most levels alone in their group in
    every class casting (the castings of one raw column start from copies of the same ranking)."""
    levels = ['L%d' % i for i in range(rng.choice([3, 4, 5]))]
    per = rng.choice([12, 15, 18])
    vals, y = [], []
    for i, lv in enumerate(levels):
        shares = [(1 + (i * 2) % 5), (1 + (i * 3 + 1) % 5), (1 + (4 - i) % 5)]
        tot = sum(shares)
        labs = [c for c, sh in zip('abc', shares) for _ in range(max(1, round(per * sh / tot)))]
        vals += [lv] * len(labs)
        y += labs
    order = list(range(len(vals)))
    rng.shuffle(order)
    return {'cls': 'MulticlassCarver',
            'features': {'o0': {'kind': 'ordinal', 'values': [vals[i] for i in order], 'order': list(levels)}},
            'y': [y[i] for i in order],
            'params': {'sort_by': rng.choice(['cramerv', 'tschuprowt']), 'min_freq': [1, 20], 'min_freq_mod': [1, 20], 'max_n_mod': 5,
                       'dropna': rng.random() < 0.5, 'output_dtype': rng.choice(['float', 'str']), 'copy': True}}


def hist_c17(seed, cls=None):
    rng = random.Random(seed)
    if cls is None and rng.random() < 0.1:
        spec = multiclass_ordinal_spec(rng)
    else:
        spec = random_object_spec(rng, cls or rng.choice(['BinaryCarver', 'BinaryCarver', 'ContinuousCarver', 'Discretizer',
                                                          'QualitativeDiscretizer', 'QuantitativeDiscretizer', 'MulticlassCarver']))
    o, X, y, kw = E.build(spec)
    h = _new('c17', seed, spec)
    if not h.fit(1, o, X, y, kw):
        return h
    X = h.last_X
    h.transform(1, X.copy(deep=True), seen=True, label='train')
    if rng.random() < 0.5:
        h.summary(1)                    # (an observer called before the edits must not freeze anything)
    for step in range(rng.randint(1, 3)):
        if _random_edits(rng, h, 1, X, n_edits=1) == 0:
            continue
        t1 = h.transform(1, X.copy(deep=True), seen=True, label='train_after_edit')
        h.summary(1)
        if h.reload(1, 2):
            h.transform(2, X.copy(deep=True), seen=True, same_as=t1, same_clause='C17_reload_differs', label='train_reloaded')
    return h


BAD_KINDS = ['nan_in_y', 'wrong_classes', 'y_index', 'x_not_frame', 'y_not_series', 'missing_column', 'missing_column_dev',
             'quali_and_quanti', 'ordinal_and_quanti', 'strings_in_quanti', 'value_not_in_order', 'bad_sort_by', 'refit', 'transform_missing_column']


def _bad_call(rng, kind, spec, h, idx, fitted):
    """Returns a thunk performing the malformed call on h.objs[idx] (or on a fresh object built
    from a malformed spec when the malformation lives in the constructor)."""
    import numpy as np
    import pandas as pd
    o = h.objs[idx]
    o_fresh, X, y, kw = E.build(spec)
    target = o if fitted else o_fresh
    h.objs[idx] = target
    is_carver = spec['cls'] in ('BinaryCarver', 'ContinuousCarver', 'MulticlassCarver')
    n = len(y)
    pos = rng.randrange(n)

    def fit_with(Xb, yb, **kwb):
        return lambda: target.fit(Xb, yb, **kwb)

    if kind == 'nan_in_y':
        yb = y.astype(object).copy() if spec['cls'] == 'MulticlassCarver' else y.astype(float).copy()
        yb.iloc[pos] = np.nan
        return fit_with(X, yb)
    if kind == 'wrong_classes':
        if not is_carver:
            return None
        if spec['cls'] == 'BinaryCarver':
            yb = pd.Series([i % 3 for i in range(n)])
        else:
            yb = pd.Series([i % 2 for i in range(n)])
        return fit_with(X, yb)
    if kind == 'y_index':
        yb = y.copy()
        style = rng.choice(['shifted', 'permuted', 'reversed'])
        if style == 'shifted' or n < 3:
            yb.index = [i + 1 for i in range(n)]
        elif style == 'reversed':         # the same labels in another order
            yb = yb.iloc[::-1]
        else:
            ids = list(range(n))
            while ids == list(range(n)):
                rng.shuffle(ids)
            yb = yb.iloc[ids]
        return fit_with(X, yb)
    if kind == 'x_not_frame':
        return fit_with(X.values, y)
    if kind == 'y_not_series':
        return fit_with(X, list(y))
    if kind == 'missing_column':
        col = rng.choice([c for c in X.columns if c in spec['features']])
        return fit_with(X.drop(columns=[col]), y)
    if kind == 'missing_column_dev':
        if not is_carver:
            return None
        col = rng.choice([c for c in X.columns if c in spec['features']])
        return fit_with(X, y, X_dev=X.drop(columns=[col]).copy(), y_dev=y.copy())
    if kind == 'strings_in_quanti':
        q = [f for f, d in spec['features'].items() if d['kind'] == 'quanti']
        if not q:
            return None
        Xb = X.copy()
        col = list(Xb[q[0]])
        col[pos] = rng.choice(['oops', '3.5', '1e3', ' 12 ', '-7', 'inf'])      # free text and number-looking strings alike
        Xb[q[0]] = pd.Series(col, dtype=object)
        return fit_with(Xb, y)
    if kind == 'value_not_in_order':
        # an ordinal feature that is discretized: a feature whose most frequent value is rarer than
        # min_freq is dropped (with a warning) before its values are looked at
        mf = spec['params']['min_freq'][0] / spec['params']['min_freq'][1]
        od = [f for f, d in spec['features'].items() if d['kind'] == 'ordinal'
              and max((d['values'].count(v) for v in set(d['values']) if v is not None), default=0) - 1 >= mf * n]
        if not od:
            return None
        Xb = X.copy()
        col = list(Xb[od[0]])
        col[pos] = 'not_ranked'
        Xb[od[0]] = pd.Series(col, dtype=object)
        return fit_with(Xb, y)
    if kind == 'refit':
        if not fitted:
            return None
        if rng.random() < 0.5:
            return fit_with(X, y)
        Xb = X.iloc[::-1].reset_index(drop=True)
        yb = y.iloc[::-1].reset_index(drop=True)
        return fit_with(Xb, yb)
    if kind == 'transform_missing_column':
        if not fitted:
            return None
        cols = [c for c in X.columns if c in spec['features'] and any(E.raw_column(o, f) == c for f in o.features)]
        if not cols:
            return None
        col = rng.choice(cols)
        return lambda: target.transform(X.drop(columns=[col]))
    if kind == 'ordinal_and_quanti':
        from AutoCarver import carvers
        if not is_carver:
            return None
        feats = spec['features']
        quanti = [f for f, d in feats.items() if d['kind'] == 'quanti']
        both = (quanti or list(feats))[0]

        def ctor2():
            kwc = dict(min_freq=0.1, quantitative_features=list(set(quanti + [both])), ordinal_features=[both],
                       values_orders={both: ['1', '2', '3']})
            if spec['cls'] == 'ContinuousCarver':
                return carvers.ContinuousCarver(**kwc)
            return getattr(carvers, spec['cls'])(sort_by='cramerv', **kwc)
        return ctor2
    if kind in ('quali_and_quanti', 'bad_sort_by'):
        # malformed constructor arguments
        from AutoCarver import carvers
        if not is_carver:
            return None
        feats = spec['features']
        quanti = [f for f, d in feats.items() if d['kind'] == 'quanti']
        categ = [f for f, d in feats.items() if d['kind'] == 'categ']
        names = list(feats)

        def ctor():
            if kind == 'bad_sort_by':
                if spec['cls'] == 'ContinuousCarver':
                    return carvers.ContinuousCarver(min_freq=0.1, quantitative_features=quanti, qualitative_features=categ, sort_by='cramerv')
                bad = rng.choice(['kruskal', 'Tschuprowt', 'CramerV', 'Cramerv', 'chi2', 'TSCHUPROWT'])
                return getattr(carvers, spec['cls'])(sort_by=bad, min_freq=0.1, quantitative_features=quanti, qualitative_features=categ)
            both = names[0]
            kwc = dict(min_freq=0.1, quantitative_features=list(set(quanti + [both])), qualitative_features=list(set(categ + [both])))
            if spec['cls'] == 'ContinuousCarver':
                return carvers.ContinuousCarver(**kwc)
            return getattr(carvers, spec['cls'])(sort_by='cramerv', **kwc)
        return ctor
    return None


def hist_c19(seed, cls=None):
    rng = random.Random(seed)
    # the classes anchored by the property (the step classes ContinuousDiscretizer / OrdinalDiscretizer /
    # CategoricalDiscretizer / StringDiscretizer rely on the validation done by these)
    spec = random_object_spec(rng, cls or rng.choice(['BinaryCarver', 'ContinuousCarver', 'MulticlassCarver', 'Discretizer',
                                                      'QualitativeDiscretizer', 'QuantitativeDiscretizer']))
    h = _new('c19', seed, spec)
    kinds = list(BAD_KINDS)
    rng.shuffle(kinds)
    # before a successful fit
    o, X, y, kw = E.build(spec)
    h.objs[1] = o
    for kind in kinds[:3]:
        thunk = _bad_call(rng, kind, spec, h, 1, fitted=False)
        if thunk is not None:
            h.badcall(1, kind, thunk)
    # after a successful fit
    o, X, y, kw = E.build(spec)
    if not h.fit(2, o, X, y, kw):
        return h
    X = h.last_X
    t0 = h.transform(2, X.copy(deep=True), seen=True, label='train')
    for kind in kinds[3:8]:
        thunk = _bad_call(rng, kind, spec, h, 2, fitted=True)
        if thunk is not None:
            h.badcall(2, kind, thunk)
            h.transform(2, X.copy(deep=True), seen=True, same_as=t0, same_clause='C19_transform_changed', label='train_after_badcall')
    return h


def sorted_probe_frame(rng, o, X):
    """a frame whose quantitative columns sweep the real line (sorted) and whose qualitative
    columns run through the training values"""
    import numpy as np
    import pandas as pd
    n = 0
    cols = {}
    for f in o.features:
        rc = E.raw_column(o, f)
        if f in o.quantitative_features:
            bs = boundaries(o, f) or [0.0]
            pts = set()
            for b in bs:
                pts |= {b, float(np.nextafter(b, np.inf)), float(np.nextafter(b, -np.inf))}
            pts |= {min(bs) - 1.0, max(bs) + 1.0, -1.7e308, 1.7e308}
            for a, b in zip(sorted(bs), sorted(bs)[1:]):
                pts.add((a + b) / 2)
            cols[rc] = sorted(pts)
        else:
            vals = [v for v in pd.unique(X[rc]) if not E.isnan(v)]
            cols[rc] = vals or [X[rc].iloc[0]]
        n = max(n, len(cols[rc]))
    data = {}
    for c in X.columns:
        if c in cols:
            v = cols[c]
            data[c] = pd.Series([v[i % len(v)] for i in range(n)], dtype=X[c].dtype)
        else:
            data[c] = pd.Series([X[c].iloc[i % len(X)] for i in range(n)], dtype=X[c].dtype)
    return pd.DataFrame(data)


def flat_then_zigzag_multiclass_spec(rng):
    """A MulticlassCarver sample in which the second class (string order) has the same rate in every
    modality of an ordinal feature (so that its carver finds no viable grouping and drops the feature)
    while the rate of the third class zigzags along the ranking."""
    levels = LETTERS[:rng.choice([4, 5, 6])]
    per = rng.choice([10, 12])
    vals, y = [], []
    for i, lv in enumerate(levels):
        nb = 2                                         # class 'b': the same count everywhere
        nc = per // 2 if i % 2 == 0 else 1             # class 'c': high / low / high / ...
        labs = ['b'] * nb + ['c'] * nc + ['a'] * (per - nb - nc)
        rng.shuffle(labs)
        vals += [lv] * per
        y += labs
    order = list(range(len(vals)))
    rng.shuffle(order)
    spec = {'cls': 'MulticlassCarver',
            'features': {'o0': {'kind': 'ordinal', 'values': [vals[i] for i in order], 'order': list(levels)},
                         'q1': {'kind': 'quanti', 'values': [float(rng.randint(0, 5)) for _ in order]}},
            'y': [y[i] for i in order],
            'params': {'sort_by': rng.choice(['cramerv', 'tschuprowt']), 'min_freq': [1, 20], 'min_freq_mod': [1, 10], 'max_n_mod': rng.choice([3, 4]),
                       'dropna': True, 'output_dtype': 'float', 'copy': True}}
    return spec


def missing_like_zero_spec(rng):
    """A carver sample (dropna=True) in which the rows with a missing value behave like the rows of
    the lowest bucket of a quantitative feature, the only quantile of that bucket being 0.0 (a
    spike at zero: amounts, counts), so that the missing values are merged with that bucket alone."""
    cls = rng.choice(['BinaryCarver', 'BinaryCarver', 'ContinuousCarver', 'MulticlassCarver'])
    nlev = rng.choice([3, 4])
    per = rng.choice([12, 16, 20])
    vals, lvs = [], []
    for i in range(nlev):
        vals += [float(i) * rng.choice([1.0, 2.5])] * per if i else [0.0] * per
        lvs += [i] * per
    nn = rng.choice([6, 8, 10])
    vals += [None] * nn
    lvs += [0] * nn
    hi = rng.random() < 0.5
    rate = [0.85 if hi else 0.1] + [(0.1 if hi else 0.45) + 0.15 * (i % 2) for i in range(1, nlev)]
    if cls == 'BinaryCarver':
        y = [1 if rng.random() < rate[l] else 0 for l in lvs]
        y[:2] = [0, 1]
    elif cls == 'MulticlassCarver':
        y = [('b' if rng.random() < rate[l] else rng.choice(['a', 'c'])) for l in lvs]
        y[:3] = ['a', 'b', 'c']
    else:
        y = [round(10 * rate[l]) + rng.choice([0, 1]) for l in lvs]
    order = list(range(len(vals)))
    rng.shuffle(order)
    return {'cls': cls, 'features': {'q0': {'kind': 'quanti', 'values': [vals[i] for i in order]}}, 'y': [y[i] for i in order],
            'params': {'sort_by': ('kruskal' if cls == 'ContinuousCarver' else rng.choice(['cramerv', 'tschuprowt'])),
                       'min_freq': [1, 10], 'min_freq_mod': None, 'max_n_mod': rng.choice([3, 4, 5]), 'dropna': True,
                       'output_dtype': rng.choice(['float', 'str']), 'copy': True}}


def sparse_columns_spec(rng):
    """A carver sample with several identifier-like qualitative columns (no modality reaches min_freq: the
    Discretizer step drops them one after the other) next to ordinary features."""
    cls = rng.choice(['BinaryCarver', 'ContinuousCarver', 'MulticlassCarver'])
    spec = random_object_spec(rng, cls, n=rng.randint(24, 48), nfeat=rng.randint(1, 2))
    n = len(spec['y'])
    feats = dict(spec['features'])
    for j in range(rng.randint(2, 3)):
        feats['id%d' % j] = {'kind': 'categ', 'values': ['u%d_%02d' % (j, (i * (j + 1)) % n) for i in range(n)]}
    names = list(feats)
    rng.shuffle(names)
    spec['features'] = {f: feats[f] for f in names}
    spec['params']['min_freq'] = rng.choice([[1, 5], [1, 4], [1, 10]])
    spec.pop('dev', None)
    return spec


def numeric_codes_ordinal_spec(rng):
    """An ordinal feature held as small integer codes whose ranking is not their numeric order, with a target that
    grows along the ranking (several groups survive, so that a float label can equal a raw code of another group)."""
    cls = rng.choice(['BinaryCarver', 'ContinuousCarver', 'Discretizer', 'QualitativeDiscretizer'])
    k = rng.choice([4, 5])
    codes = list(range(k))
    while codes == sorted(codes):
        rng.shuffle(codes)
    per = rng.choice([12, 16])
    vals, y = [], []
    for r, c in enumerate(codes):
        vals += [c] * per
        rate = 0.1 + 0.8 * r / (k - 1)
        y += [(1 if rng.random() < rate else 0) if cls != 'ContinuousCarver' else round(10 * rate) + rng.choice([0, 1]) for _ in range(per)]
    if cls != 'ContinuousCarver':
        y[0], y[-1] = 0, 1
    order = list(range(len(vals)))
    rng.shuffle(order)
    return {'cls': cls, 'features': {'o0': {'kind': 'ordinal', 'values': [vals[i] for i in order], 'order': [str(c) for c in codes]}},
            'y': [y[i] for i in order],
            'params': {'sort_by': rng.choice(['cramerv', 'tschuprowt']), 'min_freq': [1, 10], 'min_freq_mod': None, 'max_n_mod': rng.choice([4, 5]),
                       'dropna': True, 'output_dtype': 'float', 'copy': True}}


def hist_c03(seed, cls=None):
    rng = random.Random(seed)
    r0 = rng.random()
    if cls is None and r0 < 0.08:
        spec = numeric_codes_ordinal_spec(rng)
    elif cls is None and r0 < 0.2:
        spec = flat_then_zigzag_multiclass_spec(rng)
    else:
        spec = random_object_spec(rng, cls or rng.choice(['BinaryCarver', 'ContinuousCarver', 'MulticlassCarver', 'Discretizer',
                                                          'QuantitativeDiscretizer', 'QualitativeDiscretizer', 'BinaryCarver']))
    if r0 >= 0.08 or cls is not None:
        spec['params']['output_dtype'] = 'float' if rng.random() < 0.8 else 'str'
    o, X, y, kw = E.build(spec)
    h = _new('c03', seed, spec)
    if not h.fit(1, o, X, y, kw):
        return h
    X = h.last_X
    if rng.random() < 0.4:
        h.summary(1)            # an observer called between fit and transform changes nothing
    h.transform(1, X.copy(deep=True), seen=True, label='train')
    if h.objs[1].features:
        h.transform(1, sorted_probe_frame(rng, h.objs[1], X), seen=False, label='sweep')
        # the same rows under a shuffled integer index and with missing cells: order must not depend on the index
        fr = X.copy(deep=True)
        ids = list(range(len(fr)))
        rng.shuffle(ids)
        fr.index = ids
        h.transform(1, fr, seen=True, label='train_shuffled_index')
    if rng.random() < 0.3 and h.reload(1, 2) and h.objs[2].features:
        h.transform(2, sorted_probe_frame(rng, h.objs[2], X), seen=False, label='sweep_reloaded')
    return h


HISTS = {'c03': hist_c03, 'c04': hist_c04, 'c05': hist_c05, 'c06': hist_c06, 'c07': hist_c07, 'c08': hist_c08, 'c16': hist_c16,
         'c17': hist_c17, 'c19': hist_c19}


def gen_case(kind, seed, cls=None):
    h = HISTS[kind](seed, cls)
    case = h.encode()
    case['raw_exc'] = [[e['ev'], e.get('label') or e.get('kind') or '', e.get('exc')] for e in h.events if e.get('exc')]
    case['ops'] = [[e['ev'], e.get('label') or e.get('kind') or e.get('mode') or '', e['outcome']] for e in h.events]
    return case
