"""C11 driver: one sample fitted by a real carver in its original encoding and under
information-preserving re-encodings (row permutation, index relabelling, exact affine maps of
quantitative features, order-preserving renamings of categories)."""
from __future__ import annotations

import copy
import random
from fractions import Fraction

from . import est_gen
from . import estimator as E


def hump_spec(rng):
    """A ContinuousCarver sample with a discrete quantitative feature and a hump-shaped integer target: two
    levels that are not neighbours have exactly the same mean target."""
    k = rng.choice([3, 4])
    per = 12 * rng.choice([1, 2])
    means = {3: [5, 9, 5], 4: [5, 9, 7, 5]}[k] if rng.random() < 0.5 else {3: [9, 4, 9], 4: [6, 2, 9, 6]}[k]
    pats = [[-1, 1], [-1, 0, 1], [-2, 0, 2], [0]]
    vals, y = [], []
    for i, m in enumerate(means):
        pat = pats[i % len(pats)]
        vals += [float(i + 1)] * per
        y += [float(m + pat[j % len(pat)]) for j in range(per)]         # (per is a multiple of every pattern length)
    order = list(range(len(vals)))
    rng.shuffle(order)
    return {'cls': 'ContinuousCarver', 'features': {'q0': {'kind': 'quanti', 'values': [vals[i] for i in order]}}, 'y': [y[i] for i in order],
            'params': {'sort_by': 'kruskal', 'min_freq': [1, 10], 'min_freq_mod': None, 'max_n_mod': rng.choice([3, 4]), 'dropna': True,
                       'output_dtype': rng.choice(['float', 'str']), 'copy': True}}


def base_spec(seed):
    rng = random.Random(seed)
    r0 = rng.random()
    if r0 < 0.08:
        return hump_spec(rng)
    if r0 < 0.16:
        # missing values that behave like the lowest bucket; one of the re-encodings moves that bucket's boundary to exactly 0.0
        s0 = est_gen.missing_like_zero_spec(rng)
        for d in s0['features'].values():
            d['values'] = [None if v is None else float(v) + 1.0 for v in d['values']]
        s0['shift_lowest_to_zero'] = True
        return s0
    cls = rng.choice(['BinaryCarver', 'BinaryCarver', 'ContinuousCarver', 'MulticlassCarver'])
    spec = est_gen.random_object_spec(rng, cls, n=rng.randint(16, 56))
    spec.pop('float_dtype', None)
    spec.pop('extra_column', None)
    # keep quantitative values short dyadic / small decimals so that exact affine maps exist
    for f, d in spec['features'].items():
        if d['kind'] == 'quanti':
            d['values'] = [None if v is None else round(float(v) * 4) / 4 for v in d['values']]
        if d['kind'] == 'categ':
            d['values'] = [None if v is None else ('c' + E.strform(v)) for v in d['values']]     # str categories
    if rng.random() < 0.3:
        n = len(spec['y'])
        idx = [rng.randrange(n) for _ in range(rng.randint(16, 40))]
        classes = list(dict.fromkeys(spec['y']))
        idx[:len(classes)] = [spec['y'].index(c) for c in classes]
        spec['dev'] = {'features': {f: [d['values'][i] for i in idx] for f, d in spec['features'].items()},
                       'y': [spec['y'][i] for i in idx]}
    return spec


def exact_affine(values, a, b):
    out = []
    for v in values:
        if v is None:
            out.append(None)
            continue
        r = a * float(v) + b
        if Fraction(r) != Fraction(a) * Fraction(float(v)) + Fraction(b):
            return None
        out.append(r)
    return out


def variants(spec, seed):
    """-> list of (kind, spec', row_map) ; row_map[i] = index in the original of row i of the variant"""
    rng = random.Random(seed * 13 + 5)
    n = len(spec['y'])
    out = []
    # row permutation (index travels with the rows)
    perm = list(range(n))
    rng.shuffle(perm)
    s = copy.deepcopy(spec)
    for f, d in s['features'].items():
        d['values'] = [d['values'][i] for i in perm]
    s['y'] = [spec['y'][i] for i in perm]
    s['index'] = [int(i) for i in perm]
    out.append(('row_permutation', s, perm))
    # index relabelling
    s = copy.deepcopy(spec)
    kind = rng.choice(['offset', 'shuffled', 'strings'])
    if kind == 'offset':
        s['index'] = [i + 1000 for i in range(n)]
    elif kind == 'shuffled':
        ids = list(range(n))
        rng.shuffle(ids)
        s['index'] = ids
    else:
        s['index'] = ['r%03d' % i for i in range(n)]
    out.append(('index_' + kind, s, list(range(n))))
    # exact affine maps of the quantitative features
    if any(d['kind'] == 'quanti' for d in spec['features'].values()):
        maps = []
        if spec.get('shift_lowest_to_zero'):
            lows = [min(v for v in d['values'] if v is not None) for d in spec['features'].values() if d['kind'] == 'quanti']
            maps.append((1.0, -min(lows)))
            maps.append((2.0, -2.0 * min(lows)))
        for _ in range(2):
            a = rng.choice([2.0, 0.5, 4.0, 1024.0, 0.25, 8.0, 2.0 ** -40, 2.0 ** 30])
            b = rng.choice([0.0, 1.0, -3.0, 0.5, 100.0, 2.0 ** 27, -(2.0 ** 30)])
            if a < 1e-6:
                b = 0.0
            maps.append((a, b))
        for a, b in maps:
            s = copy.deepcopy(spec)
            ok = True
            for f, d in s['features'].items():
                if d['kind'] == 'quanti':
                    nv = exact_affine(d['values'], a, b)
                    if nv is None:
                        ok = False
                        break
                    d['values'] = nv
                    if s.get('dev'):
                        dv = exact_affine(s['dev']['features'][f], a, b)
                        if dv is None:
                            ok = False
                            break
                        s['dev']['features'][f] = dv
            if ok:
                out.append((f'affine_{a}x+{b}', s, list(range(n))))
    # order-preserving renaming of categories (a common prefix keeps the string order; ordinal values
    # are renamed together with their ranking)
    if any(d['kind'] in ('categ', 'ordinal') for d in spec['features'].values()):
        s = copy.deepcopy(spec)
        # the prefix keeps the string order among the categories AND their order relative to the fixed
        # modalities '__NAN__' / '__OTHER__' (category names start with 'c' > '_'): at exactly equal target
        # rates the library orders modalities alphabetically, sentinels included
        pre = rng.choice(['zz_', 'k_', 'd'])

        def ren(v):
            return None if v is None else pre + E.strform(v)
        for f, d in s['features'].items():
            if d['kind'] in ('categ', 'ordinal'):
                d['values'] = [ren(v) for v in d['values']]
                if d.get('order') is not None:
                    d['order'] = [ren(v) for v in d['order']]
                if s.get('dev'):
                    s['dev']['features'][f] = [ren(v) for v in s['dev']['features'][f]]
        out.append(('rename_prefix', s, list(range(n))))
    return out


def _rank_codes(col, kind):
    vals = [v for v in col if v is not None]
    if kind == 'quanti':
        order = sorted(set(float(v) for v in vals))
        rk = {v: i + 1 for i, v in enumerate(order)}
        return [0 if v is None else rk[float(v)] for v in col]
    order = sorted(set(E.strform(v) for v in vals))
    rk = {v: i + 1 for i, v in enumerate(order)}
    return [0 if v is None else rk[E.strform(v)] for v in col]


def run_one(spec, names, row_map=None, ordinal_rank=None):
    o, X, y, kw = E.build(spec)
    n = len(spec['y'])
    row_map = row_map or list(range(n))
    inv = [0] * n
    for i, r in enumerate(row_map):
        inv[r] = i
    res = {'kept': [], 'parts': [[] for _ in names], 'absin': [], 'outcome': 0}
    for f in names:
        d = spec['features'][f]
        col = d['values']
        if d['kind'] == 'ordinal':       # the ranking is the order: rank = position in the user ranking
            pos = {E.strform(v): i + 1 for i, v in enumerate(d['order'])}
            codes = [0 if v is None else pos.get(E.strform(v), -1) for v in col]
        else:
            codes = _rank_codes(col, d['kind'])
        res['absin'].append([codes[inv[r]] for r in range(n)])
    try:
        o.fit(X, y, **kw)
        out = o.transform(X.copy(deep=True))
    except Exception as e:
        res['outcome'] = E.outcome_code(e)
        res['exc'] = E.exc_text(e)
        return res
    kept = sorted(o.features)
    # multiclass: kept columns are f_<class>; report them as (feature, class) in a fixed order
    cols = []
    for fi, f in enumerate(names):
        for c in kept:
            if E.raw_column(o, c) == f:
                cols.append((fi + 1, c))
    res['kept_names'] = [c for _, c in cols]
    res['cols'] = cols
    res['out'] = {c: list(out[c]) for _, c in cols}
    res['inv'] = inv
    return res


def case_for(seed):
    spec = base_spec(seed)
    names = list(spec['features'])
    ref = run_one(spec, names)
    vars_ = variants(spec, seed)
    runs = [(kind, run_one(s, names, row_map)) for kind, s, row_map in vars_]
    n = len(spec['y'])
    # column universe: every (feature, output column) seen in any run
    allcols = sorted({c for r in [ref] + [r for _, r in runs] for c in r.get('kept_names', [])})
    cid = {c: i + 1 for i, c in enumerate(allcols)}

    def enc(r):
        table = {}
        parts = [[] for _ in allcols]
        kept = []
        if r['outcome'] == 0:
            for _, c in r['cols']:
                kept.append(cid[c])
                labs = r['out'][c]
                codes = []
                for lab in labs:
                    key = 'nan' if E.isnan(lab) else repr(lab)
                    codes.append(table.setdefault(key, len(table) + 1))
                parts[cid[c] - 1] = [codes[r['inv'][k]] for k in range(n)]
        return {'kept': sorted(kept), 'parts': parts, 'absin': r['absin'], 'outcome': r['outcome']}
    refe = enc(ref)
    variants_enc = []
    for kind, r in runs:
        e = enc(r)
        e['kind'] = kind
        e['clause_kept'] = 'C11_kept_features_differ'
        e['clause_part'] = 'C11_row_partition_differs'
        e['strict'] = False
        if r['outcome'] != ref['outcome']:
            e['kept'] = [-1]        # different outcome: kept sets differ by construction
        variants_enc.append(e)
    return {'id': f're{seed}', 'ordered': False, 'tie_m': [], 'tie_g': [], 'ref': refe, 'variants': variants_enc,
            'meta': {'driver': 'reencode.case_for', 'args': {'seed': seed}, 'cls': spec['cls'], 'ref_outcome': ref['outcome'],
                     'ref_exc': ref.get('exc'), 'variant_kinds': [k for k, _ in runs]}}
