"""ChainedDiscretizer driver (C18): random hierarchies, real fit, projection for ChainedTrace.tla."""
from __future__ import annotations

import random

from . import estimator as E

STR_NAN = E.STR_NAN


def random_spec(seed):
    rng = random.Random(seed)
    nlevels = rng.choice([1, 2, 2, 3])
    numeric = rng.random() < 0.25
    nleaves = rng.randint(3, 7)
    leaves = [str(i + 1) for i in range(nleaves)] if numeric else ['v%d' % i for i in range(nleaves)]
    levels = []          # list of dicts name -> members
    nodes = list(leaves)
    par = {}
    lvl = {v: 0 for v in leaves}
    current = list(leaves)
    for li in range(1, nlevels + 1):
        ngroups = max(1, min(len(current), rng.randint(1, max(1, len(current) - 1))))
        names = ['L%d_%d' % (li, k) for k in range(ngroups)]
        d = {nm: [] for nm in names}
        for i, v in enumerate(current):
            if li > 1 and rng.random() < 0.15 and len(current) > 2:
                continue                      # a group left out of the next level: becomes a root
            g = names[i] if i < ngroups else rng.choice(names)
            d[g].append(v)
            par[v] = g
        d = {g: mem for g, mem in d.items() if mem}
        if not d:
            break
        for g in d:
            lvl[g] = li
            if rng.random() < 0.7:
                d[g] = d[g] + [g]
        levels.append(d)
        nodes += list(d)
        current = list(d)
    n = rng.randint(12, 60)
    weights = [rng.choice([0, 1, 1, 2, 5, 8]) for _ in leaves]
    if sum(weights) == 0:
        weights[0] = 3
    pool = [v for v, w in zip(leaves, weights) for _ in range(w)]
    inter = [v for v in nodes if v not in leaves]
    vals = []
    nunknown_vals = ['zz_unknown', 'yy_unknown'] if rng.random() < 0.25 else []
    with_nan = rng.random() < 0.5
    for _ in range(n):
        r = rng.random()
        if r < 0.08 and with_nan:
            vals.append(None)
        elif r < 0.14 and inter:
            vals.append(rng.choice(inter))        # an intermediate name observed directly
        elif r < 0.2 and nunknown_vals:
            vals.append(rng.choice(nunknown_vals))
        else:
            vals.append(rng.choice(pool))
    mf = rng.choice([[1, 10], [3, 20], [1, 5], [1, 4], [1, 3]])
    if rng.random() < 0.12:
        # boundary: the most frequent value holds exactly min_freq of the rows, every other value less
        k = max(2, (n * mf[0]) // mf[1])
        n = k * mf[1] // mf[0] if (k * mf[1]) % mf[0] == 0 else n
        if n * mf[0] % mf[1] == 0:
            k = n * mf[0] // mf[1]
            others = [v for v in leaves]
            vals = [leaves[0]] * k
            i = 0
            while len(vals) < n:
                v = others[1 + i % (len(others) - 1)] if len(others) > 1 else None
                vals.append(v if (v is None or vals.count(v) < k - 1) else None)
                i += 1
            rng.shuffle(vals)
    if numeric:
        conv = rng.choice([int, float])
        vals = [conv(v) if (v is not None and v.isdigit()) else v for v in vals]
    y = [rng.randint(0, 1) for _ in range(n)]
    y[0], y[1] = 0, 1
    spec = {'cls': 'ChainedDiscretizer', 'features': {'f': {'kind': 'categ', 'values': vals}}, 'y': y,
            'chained_orders': levels,
            'params': {'min_freq': mf,
                       'unknown_handling': rng.choice(['raise', 'drop']), 'copy': True},
            'hier': {'nodes': nodes, 'par': {k: v for k, v in par.items()}, 'lvl': lvl}}
    return spec


def fit_case(spec, tag=''):
    o, X, y, kw = E.build(spec)
    hier = spec['hier']
    nodes = hier['nodes']
    idx = {v: i + 1 for i, v in enumerate(nodes)}
    col = list(X['f'])
    n = len(col)
    cnt = [0] * len(nodes)
    unknown = []
    nanrows = 0
    rownode = []
    for v in col:
        if E.isnan(v):
            nanrows += 1
            rownode.append(0)
            continue
        s = E.strform(v)
        if s in idx:
            cnt[idx[s] - 1] += 1
            rownode.append(idx[s])
        else:
            if s not in unknown:
                unknown.append(s)
            rownode.append(0)
    exc = None
    try:
        o.fit(X, y)
    except Exception as e:
        exc = e
    case = {'id': tag, 'par': [idx.get(hier['par'].get(v), 0) for v in nodes], 'lvl': [hier['lvl'][v] for v in nodes],
            'cnt': cnt, 'n': n, 'mf': list(spec['params']['min_freq']), 'outcome': E.outcome_code(exc),
            'policy': spec['params']['unknown_handling'], 'nunknown': len(unknown), 'nanrows': nanrows,
            'leader': [0] * len(nodes), 'unkleader': [], 'wf': True, 'out': [], 'removed': False,
            'meta': {'driver': 'chained.fit_case', 'args': {'spec': spec}, 'exc': E.exc_text(exc)}}
    if exc is not None:
        return case
    if 'f' not in o.features:
        # the feature was dropped: only allowed when no training value reaches min_freq
        case['removed'] = True
        return case
    vo = o.values_orders['f']
    flat = [m for k in vo for m in vo.content.get(k, [])]
    case['wf'] = bool(len(set(list(vo))) == len(list(vo)) and set(vo.content) == set(vo)
                      and len(flat) == len(set(map(lambda m: (type(m).__name__, m), flat)))
                      and all(k in vo.content[k] for k in vo))

    def leader_code(val):
        for k in vo:
            if any((m == val) and isinstance(m, str) == isinstance(val, str) for m in vo.content.get(k, [])):
                if isinstance(k, str) and k == STR_NAN:
                    return -1
                return idx.get(E.strform(k), 0) or -2
        return 0
    case['leader'] = [leader_code(v) for v in nodes]
    case['unkleader'] = [leader_code(u) for u in unknown]
    try:
        out = o.transform(X.copy())
        rows = []
        for rn, lab in zip(rownode, list(out['f'])):
            if E.isnan(lab):
                oc = -1
            else:
                oc = idx.get(E.strform(lab), -2)
            rows.append([rn, oc])
        # row-wise purity: the rows that hold no missing value, transformed on their own, give the same outputs
        keep = [i for i, v in enumerate(col) if not E.isnan(v)]
        if keep and len(keep) < len(col):
            sub = o.transform(X.iloc[keep].copy())
            for j, i in enumerate(keep):
                lab = list(sub['f'])[j]
                oc = -1 if E.isnan(lab) else idx.get(E.strform(lab), -2)
                rows.append([rownode[i], oc])
        case['out'] = rows
    except Exception as e:
        case['outcome'] = E.outcome_code(e)
        case['meta']['exc'] = E.exc_text(e)
    return case
