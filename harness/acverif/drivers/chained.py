"""ChainedDiscretizer driver (C18): random hierarchies, real fit, projection for ChainedTrace.tla."""
from __future__ import annotations

import random

from . import estimator as E

STR_NAN = E.STR_NAN


def random_spec(seed):
    rng = random.Random(seed)
    nlevels = rng.choice([1, 2, 2, 3])
    numeric = rng.random() < 0.25
    nleaves = rng.randint(3, 7)
    leaves = [str(i + 1) for i in range(nleaves)] if numeric else ['v%d' % i for i in range(nleaves)]
    levels = []          # list of dicts name -> members
    nodes = list(leaves)
    par = {}
    lvl = {v: 0 for v in leaves}
    current = list(leaves)
    for li in range(1, nlevels + 1):
        ngroups = max(1, min(len(current), rng.randint(1, max(1, len(current) - 1))))
        names = ['L%d_%d' % (li, k) for k in range(ngroups)]
        d = {nm: [] for nm in names}
        for i, v in enumerate(current):
            if li > 1 and rng.random() < 0.15 and len(current) > 2:
                continue                      # a group left out of the next level: becomes a root
            g = names[i] if i < ngroups else rng.choice(names)
            d[g].append(v)
            par[v] = g
        d = {g: mem for g, mem in d.items() if mem}
        if not d:
            break
        for g in d:
            lvl[g] = li
            if rng.random() < 0.7:
                d[g] = d[g] + [g]
        levels.append(d)
        nodes += list(d)
        current = list(d)
    n = rng.randint(12, 60)
    weights = [rng.choice([0, 1, 1, 2, 5, 8]) for _ in leaves]
    if sum(weights) == 0:
        weights[0] = 3
    pool = [v for v, w in zip(leaves, weights) for _ in range(w)]
    inter = [v for v in nodes if v not in leaves]
    vals = []
    nunknown_vals = ['zz_unknown', 'yy_unknown'] if rng.random() < 0.25 else []
    with_nan = rng.random() < 0.5
    for _ in range(n):
        r = rng.random()
        if r < 0.08 and with_nan:
            vals.append(None)
        elif r < 0.14 and inter:
            vals.append(rng.choice(inter))        # an intermediate name observed directly
        elif r < 0.2 and nunknown_vals:
            vals.append(rng.choice(nunknown_vals))
        else:
            vals.append(rng.choice(pool))
    mf = rng.choice([[1, 10], [3, 20], [1, 5], [1, 4], [1, 3]])
    if rng.random() < 0.12:
        # boundary: the most frequent value holds exactly min_freq of the rows, every other value less
        if rng.random() < 0.4:
            # thresholds and sample sizes for which min_freq * n, computed in floating point, exceeds the exact count
            # (0.07 * 100 = 7.000000000000001): "frequency >= min_freq" is about the frequency, not about a rounded product
            a, b, n = rng.choice([(7, 25, 25), (7, 25, 50), (7, 50, 50), (7, 100, 100), (7, 50, 100)])
            mf = [a, b]
        k = max(2, (n * mf[0]) // mf[1])
        n = k * mf[1] // mf[0] if (k * mf[1]) % mf[0] == 0 else n
        if n * mf[0] % mf[1] == 0:
            k = n * mf[0] // mf[1]
            others = [v for v in leaves]
            vals = [leaves[0]] * k
            i = 0
            while len(vals) < n:
                v = others[1 + i % (len(others) - 1)] if len(others) > 1 else None
                vals.append(v if (v is None or vals.count(v) < k - 1) else None)
                i += 1
            rng.shuffle(vals)
    if numeric:
        conv = rng.choice([int, float])
        vals = [conv(v) if (v is not None and v.isdigit()) else v for v in vals]
    y = [rng.randint(0, 1) for _ in range(n)]
    y[0], y[1] = 0, 1
    spec = {'cls': 'ChainedDiscretizer', 'features': {'f': {'kind': 'categ', 'values': vals}}, 'y': y,
            'chained_orders': levels,
            'params': {'min_freq': mf,
                       'unknown_handling': rng.choice(['raise', 'drop']), 'copy': True},
            'hier': {'nodes': nodes, 'par': {k: v for k, v in par.items()}, 'lvl': lvl}}
    return spec


def fit_case(spec, tag=''):
    o, X, y, kw = E.build(spec)
    hier = spec['hier']
    nodes = hier['nodes']
    idx = {v: i + 1 for i, v in enumerate(nodes)}
    col = list(X['f'])
    n = len(col)
    cnt = [0] * len(nodes)
    unknown = []
    nanrows = 0
    rownode = []
    for v in col:
        if E.isnan(v):
            nanrows += 1
            rownode.append(0)
            continue
        s = E.strform(v)
        if s in idx:
            cnt[idx[s] - 1] += 1
            rownode.append(idx[s])
        else:
            if s not in unknown:
                unknown.append(s)
            rownode.append(0)
    exc = None
    try:
        o.fit(X, y)
    except Exception as e:
        exc = e
    case = {'id': tag, 'par': [idx.get(hier['par'].get(v), 0) for v in nodes], 'lvl': [hier['lvl'][v] for v in nodes],
            'cnt': cnt, 'n': n, 'mf': list(spec['params']['min_freq']), 'outcome': E.outcome_code(exc),
            'policy': spec['params']['unknown_handling'], 'nunknown': len(unknown), 'nanrows': nanrows,
            'leader': [0] * len(nodes), 'unkleader': [], 'wf': True, 'out': [], 'removed': False,
            'meta': {'driver': 'chained.fit_case', 'args': {'spec': spec}, 'exc': E.exc_text(exc)}}
    if exc is not None:
        return case
    if 'f' not in o.features:
        # the feature was dropped: only allowed when no training value reaches min_freq
        case['removed'] = True
        return case
    vo = o.values_orders['f']
    flat = [m for k in vo for m in vo.content.get(k, [])]
    case['wf'] = bool(len(set(list(vo))) == len(list(vo)) and set(vo.content) == set(vo)
                      and len(flat) == len(set(map(lambda m: (type(m).__name__, m), flat)))
                      and all(k in vo.content[k] for k in vo))

    def leader_code(val):
        for k in vo:
            if any((m == val) and isinstance(m, str) == isinstance(val, str) for m in vo.content.get(k, [])):
                if isinstance(k, str) and k == STR_NAN:
                    return -1
                return idx.get(E.strform(k), 0) or -2
        return 0
    case['leader'] = [leader_code(v) for v in nodes]
    case['unkleader'] = [leader_code(u) for u in unknown]
    try:
        out = o.transform(X.copy())
        rows = []
        for rn, lab in zip(rownode, list(out['f'])):
            if E.isnan(lab):
                oc = -1
            else:
                oc = idx.get(E.strform(lab), -2)
            rows.append([rn, oc])
        # row-wise purity: the rows that hold no missing value, transformed on their own, give the same outputs
        keep = [i for i, v in enumerate(col) if not E.isnan(v)]
        if keep and len(keep) < len(col):
            sub = o.transform(X.iloc[keep].copy())
            for j, i in enumerate(keep):
                lab = list(sub['f'])[j]
                oc = -1 if E.isnan(lab) else idx.get(E.strform(lab), -2)
                rows.append([rownode[i], oc])
        case['out'] = rows
    except Exception as e:
        case['outcome'] = E.outcome_code(e)
        case['meta']['exc'] = E.exc_text(e)
    return case


# ---------------------------------------------------------------------------------------------
# spec -> code: a finished state of Chained.tla (tree, counts, threshold, final leaders) replayed
# ---------------------------------------------------------------------------------------------
def spec_from_state(st, self_member=True):
    """The hierarchy / sample of one TLC state as a driver spec (nodes are named n1..nM)."""
    par, lvl, cnt = list(st['tree']['par']), list(st['tree']['lvl']), list(st['cnt'])
    M = len(par)
    name = {i + 1: 'n%d' % (i + 1) for i in range(M)}
    levels = []
    for li in range(1, max(lvl) + 1):
        d = {}
        for g in range(1, M + 1):
            if lvl[g - 1] == li:
                mem = [name[c] for c in range(1, M + 1) if par[c - 1] == g]
                if mem:
                    d[name[g]] = mem + ([name[g]] if self_member else [])
        # the class wants every value of a level to be known from the level before: a node attached to a
        # group more than one level up (or a first-level value without any group) is carried as its own group
        for c in range(1, M + 1):
            g = par[c - 1]
            if (g and lvl[c - 1] < li < lvl[g - 1]) or (not g and lvl[c - 1] == 0 and li == 1):
                d.setdefault(name[c], [name[c]])
        if d:
            levels.append(d)
    vals = [name[i + 1] for i, c in enumerate(cnt) for _ in range(c)] + [None] * (st['n'] - sum(cnt))
    rnd = random.Random(sum((i + 1) * c for i, c in enumerate(cnt)) + 7 * st['n'])
    rnd.shuffle(vals)
    y = [i % 2 for i in range(len(vals))]
    nodes = [name[i + 1] for i in range(M)]
    return {'cls': 'ChainedDiscretizer', 'features': {'f': {'kind': 'categ', 'values': vals}}, 'y': y,
            'chained_orders': levels,
            'params': {'min_freq': list(st['mf']), 'unknown_handling': 'raise', 'copy': True},
            'hier': {'nodes': nodes, 'par': {name[i + 1]: name[p] for i, p in enumerate(par) if p}, 'lvl': {name[i + 1]: l for i, l in enumerate(lvl)}}}


def replay_state(st):
    """-> list of (clause, explanation); empty = the real class ended where the specification does"""
    import contextlib
    import io
    if sum(st['cnt']) == 0:
        return []          # nothing but missing rows: outside the hierarchy's business
    spec = spec_from_state(st)
    with contextlib.redirect_stdout(io.StringIO()):
        case = fit_case(spec, 'replay')
    if case['outcome'] != 0:
        return [('C18_spurious_rejection' if case['outcome'] == 1 else 'C18_internal_error', str(case['meta'].get('exc'))[:200])]
    if case['removed']:
        n, mf = st['n'], st['mf']
        if any(c * mf[1] >= mf[0] * n for c in st['cnt']):
            return [('C18_feature_dropped_although_a_value_is_frequent', f'cnt={st["cnt"]} n={n} mf={mf}')]
        return []
    fails = []
    if list(case['leader']) != list(st['leader']):
        fails.append(('C18_leaders_differ_from_specification', f'real leaders {case["leader"]}, Chained.tla {list(st["leader"])}'))
    for rn, oc in case['out']:
        if rn and oc != st['leader'][rn - 1]:
            fails.append(('C18_transform_not_leader', f'a row holding node {rn} is transformed to {oc}, leader {st["leader"][rn - 1]}'))
            break
    return fails
