"""C10 driver: a dataset is fitted (a) feature by feature with n_jobs=1 (the reference FitOne(f)),
(b) under every schedule (iteration order, completion order, workers) produced by TLC from
Parallel.tla, replayed through the fake pool, (c) with feature subsets, other list / column orders,
(d) in child interpreters with other hash seeds, (e) with real multiprocessing pools."""
from __future__ import annotations

import json
import os
import random
import subprocess
import sys

from . import estimator as E
from .. import fakepool

FEATS = ['qa', 'qb', 'qc']           # features 1, 2, 3 of Parallel.tla
QUALI = ['ka', 'kb']
ORD = ['oa', 'ob']               # ordinal features held as numbers (ranks 1..k ranked '1'..'k'): completed by StringDiscretizer
SPARSE = ['ia', 'ib', 'ic']      # id-like qualitative features: dropped for sparsity (no modality reaches min_freq)


def dataset(seed):
    rng = random.Random(seed)
    n = rng.randint(20, 48)
    from . import est_gen
    feats = {}
    for f in FEATS:
        vals, lv = est_gen.gen_quanti(rng, n, rng.choice([0, 0.1, 0.2]), style=rng.choice(['levels', 'jitter', 'uniform', 'spike', 'int']))
        feats[f] = {'kind': 'quanti', 'values': vals}
    if seed % 4 == 1:
        # a quantitative feature held as 64-bit integers beyond 2^53 (nanosecond timestamps): its buckets do not depend on
        # whether a float column is fitted alongside (no common float64 block)
        base = 1_700_000_000_000_000_000
        feats['qc'] = {'kind': 'quanti', 'values': [base + (i * 7919) % 100_003 for i in range(n)], 'int64': True}
    for f in QUALI:      # numeric categories: they go through StringDiscretizer (apply_async)
        nlev = rng.randint(2, 5) + (1 if f == 'kb' else 0)      # kb owns a modality ka never sees
        cats = [float(i + 1) for i in range(nlev)] if rng.random() < 0.5 else [i + 1 for i in range(nlev)]
        # half of the datasets: the first level is rare (it ends in the default modality)
        pool = list(range(nlev)) if rng.random() < 0.5 else [0] + [i for i in range(1, nlev) for _ in range(5)]
        feats[f] = {'kind': 'categ', 'values': [None if rng.random() < 0.1 else cats[rng.choice(pool)] for _ in range(n)]}
    for f in ORD:
        nlev = rng.randint(3, 5)
        conv = float if rng.random() < 0.5 else int
        feats[f] = {'kind': 'ordinal', 'values': [None if rng.random() < 0.08 else conv(rng.randint(1, nlev)) for _ in range(n)],
                    'order': [str(i + 1) for i in range(nlev)]}
    for j, f in enumerate(SPARSE):
        feats[f] = {'kind': 'categ', 'values': ['%s%02d' % (f, (i * (j + 1)) % n) for i in range(n)]}
    y = [rng.randint(0, 1) for _ in range(n)]
    y[0], y[1] = 0, 1
    return {'features': feats, 'y': y,
            'params': {'min_freq': rng.choice([[1, 10], [1, 5], [1, 4]]), 'sort_by': 'cramerv', 'max_n_mod': 4,
                       'dropna': rng.random() < 0.5, 'output_dtype': rng.choice(['str', 'float']), 'copy': True}}


def sub_spec(ds, cls, names, n_jobs=None, column_order=None):
    feats = {f: ds['features'][f] for f in names}
    if column_order:
        feats = {f: feats[f] for f in column_order if f in feats}
    p = dict(ds['params'])
    if n_jobs:
        p['n_jobs'] = n_jobs
    return {'cls': cls, 'features': feats, 'y': ds['y'], 'params': p}


def projection(o, X, names, ds=None):
    """per feature: a canonical text of (values_orders[f], transform(X)[f])"""
    out = {}
    try:
        tr = o.transform(X.copy(deep=True))
    except Exception as e:
        tr = None
        terr = type(e).__name__
    # a second frame: the qualitative columns exchanged, so that each feature meets values that are known
    # modalities of another feature (unseen for itself); judged feature by feature
    swapped = {}
    disturbed = {}
    qs = [f for f in names if f in QUALI and f in o.features]
    for f in names:
        if f in qs:
            other = QUALI[(QUALI.index(f) + 1) % len(QUALI)]
            if ds is not None and other in ds['features']:
                import numpy as np
                import pandas as pd
                fr = X.copy(deep=True)
                fr[f] = pd.Series([np.nan if v is None else v for v in ds['features'][other]['values']], dtype=object)
                try:
                    res = o.transform(fr)
                    swapped[f] = [('nan' if E.isnan(v) else repr(v)) for v in res[f]]
                    if tr is not None:
                        for g in names:        # every other feature reads its own, untouched column
                            if g != f and g in o.features and g in res.columns:
                                same = [('nan' if E.isnan(v) else repr(v)) for v in res[g]] == [('nan' if E.isnan(v) else repr(v)) for v in tr[g]]
                                disturbed[g] = disturbed.get(g, False) or not same
                except Exception as e:
                    swapped[f] = type(e).__name__
    # a third frame: every qualitative feature that owns a default modality meets, in the same call, a value
    # that is a known modality of the other qualitative feature and a value nobody knows
    cross = {}
    if ds is not None and qs:
        import numpy as np
        import pandas as pd
        fr = X.copy(deep=True)
        with_default = [f for f in qs if any(isinstance(k, str) and k == o.str_default for k in o.values_orders[f])]
        for f in qs:
            if f not in with_default:
                cross[f] = 'NODEFAULT'
                continue
            other = QUALI[(QUALI.index(f) + 1) % len(QUALI)]
            own = [v for v in ds['features'][f]['values'] if v is not None]
            foreign = [v for v in ds['features'][other]['values'] if v is not None and v not in own]
            col = [np.nan if v is None else v for v in ds['features'][f]['values']]
            col[0] = max(foreign, key=foreign.count) if foreign else col[0]     # the other feature's most frequent own modality
            col[1] = 99
            fr[f] = pd.Series(col, dtype=object)
        if with_default:
            try:
                res = o.transform(fr)
                for f in with_default:
                    cross[f] = [('nan' if E.isnan(v) else repr(v)) for v in res[f]]
            except Exception as e:
                for f in with_default:
                    cross[f] = type(e).__name__
    for f in names:
        if f not in o.features:
            out[f] = 'DROPPED'
            continue
        vo = o.values_orders[f]
        col = [('nan' if E.isnan(v) else repr(v)) for v in tr[f]] if tr is not None else terr
        col = [col, swapped.get(f), bool(disturbed.get(f, False)), cross.get(f)]
        out[f] = json.dumps([[repr(k) for k in vo], [[repr(k), [repr(m) for m in vo.content[k]]] for k in vo], col])
    return out


def fit_project(spec, names, schedule=None, force_order=None, ds=None):
    o, X, y, kw = E.build(spec)
    if force_order is not None:
        # the iteration order is what `features` / `quantitative_features` hold when fit runs
        o.features = [f for f in force_order if f in o.features]
        o.quantitative_features = [f for f in force_order if f in o.quantitative_features]
        o.qualitative_features = [f for f in force_order if f in o.qualitative_features]
    try:
        if schedule is not None:
            with fakepool.patched(schedule) as fac:
                o.fit(X, y)
                proj = projection(o, X, names, ds)
            return proj, fac.instances
        o.fit(X, y)
        return projection(o, X, names, ds), 0
    except Exception as e:
        return {f: f'EXC:{type(e).__name__}' for f in names}, 0


CLASSES = ['ContinuousDiscretizer', 'Discretizer', 'BinaryCarver']


def run_dataset(seed, schedules, hash_seeds=(), real_pool=False):
    """schedules: list of (perm, comp, workers) over feature ids 1..3."""
    ds = dataset(seed)
    cases = []
    for cls in CLASSES:
        names = FEATS if cls == 'ContinuousDiscretizer' else FEATS + QUALI + ORD + SPARSE
        table = {}

        def code(text):
            return table.setdefault(text, len(table) + 1)
        # reference: each feature alone, sequential
        ref = {}
        for f in names:
            pr, _ = fit_project(sub_spec(ds, cls, [f]), [f], ds=ds)
            ref[f] = code(pr[f])
        runs = []

        def add(kind, proj, perm=(), comp=(), workers=1):
            runs.append({'kind': kind, 'clause': 'C10_' + kind, 'perm': list(perm), 'comp': list(comp), 'workers': workers,
                         'res': [code(proj[f]) if f in proj else 0 for f in names]})
        # (b) TLC schedules through the fake pool
        pools_seen = 0
        for perm, comp, w in schedules:
            pnames = [FEATS[i - 1] for i in perm]
            order = pnames + [f for f in names if f not in pnames]
            proj, inst = fit_project(sub_spec(ds, cls, names, n_jobs=w, column_order=order), names,
                                     schedule=[FEATS[i - 1] for i in comp] + list(reversed(QUALI)),
                                     force_order=order if cls == 'ContinuousDiscretizer' else None, ds=ds)
            pools_seen += inst
            add('parallel_schedule_differs', proj, perm, comp, w)
        # (a)/(c) subsets, list orders, column orders (sequential)
        rng = random.Random(seed * 7 + 1)
        for _ in range(3):
            k = rng.randint(1, len(names))
            sub = rng.sample(names, k)
            cols = list(sub)
            rng.shuffle(cols)
            proj, _ = fit_project(sub_spec(ds, cls, sub, column_order=cols), sub, ds=ds)
            add('subset_or_order_differs', proj)
        # (e) real pools
        if real_pool:
            for w in (2, 3):
                proj, _ = fit_project(sub_spec(ds, cls, names, n_jobs=w), names, ds=ds)
                add('real_pool_differs', proj, workers=w)
        # (d) other hash seeds, in child interpreters
        for hs in hash_seeds:
            proj = child_projection(sub_spec(ds, cls, names), names, hs, ds)
            add('hash_seed_differs', proj)
        cases.append({'id': f'par{seed}:{cls}', 'nfeat': len(names), 'ref': [ref[f] for f in names], 'runs': runs,
                      'meta': {'driver': 'parallel.run_dataset', 'args': {'seed': seed}, 'cls': cls, 'fake_pools_created': pools_seen}})
    return cases


CHILD = r'''
import sys, json
sys.path.insert(0, {harness!r}); sys.path.insert(0, {repo!r})
import warnings; warnings.filterwarnings('ignore')
from acverif.drivers import parallel
spec = json.loads(sys.stdin.read())
proj, _ = parallel.fit_project(spec['spec'], spec['names'], ds=spec.get('ds'))
print('PROJ' + json.dumps(proj))
'''


def child_projection(spec, names, hash_seed, ds=None):
    from ..core import repo_path
    harness = os.path.dirname(os.path.dirname(os.path.dirname(os.path.abspath(__file__))))
    env = dict(os.environ, PYTHONHASHSEED=str(hash_seed), PYTHONDONTWRITEBYTECODE='1')
    pr = subprocess.run([sys.executable, '-c', CHILD.format(harness=harness, repo=repo_path())],
                        input=json.dumps({'spec': spec, 'names': names, 'ds': ds}), capture_output=True, text=True, env=env, timeout=300)
    for line in pr.stdout.splitlines():
        if line.startswith('PROJ'):
            return json.loads(line[4:])
    raise RuntimeError('child interpreter failed: ' + pr.stderr[-800:])
