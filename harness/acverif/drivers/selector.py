"""Selector driver (C14, C15): real ClassificationSelector / RegressionSelector runs on seeded
frames with correlated clusters, ties, NaN and constant columns; independent recomputation of the
measures and of the inter-feature associations with numpy / scipy primitives."""
from __future__ import annotations

import contextlib
import copy
import io
import math
import random

import numpy as np

SCALE = 1_000_000


def gen_spec(seed):
    rng = random.Random(seed)
    task = rng.choice(['classification', 'classification', 'regression'])
    n = rng.randint(30, 60)
    nq = rng.randint(2, 5)
    nk = rng.randint(0, 3)
    z = [[rng.gauss(0, 1) for _ in range(n)] for _ in range(2)]         # two latent factors
    r_only = task == 'classification' and rng.random() < 0.12       # the correlation ratio as only (user-chosen) measure
    if task == 'classification':
        ncls = rng.choice([3, 4]) if r_only else rng.choice([2, 2, 3])
        score = [z[0][i] + 0.5 * rng.gauss(0, 1) for i in range(n)]
        cuts = sorted(score)
        y = [sum(1 for c in range(1, ncls) if score[i] > cuts[int(n * c / ncls)]) for i in range(n)]
        for c in range(ncls):
            y[c] = c
    else:
        y = [round(z[0][i] * 2 + rng.gauss(0, 0.5), 3) for i in range(n)]
    quanti = {}
    for j in range(nq):
        kind = rng.choice(['latent0', 'latent1', 'noise', 'copy_prev', 'monotone_prev', 'discrete', 'constant', 'nan_heavy', 'noisy_prev',
                           'neg_prev', 'outlier_low', 'outlier_high', 'mode_heavy'])
        names = list(quanti)
        if kind == 'latent0':
            v = [round(z[0][i] + rng.gauss(0, 0.7), 3) for i in range(n)]
        elif kind == 'latent1':
            v = [round(z[1][i] + rng.gauss(0, 0.3), 3) for i in range(n)]
        elif kind == 'copy_prev' and names:
            v = list(quanti[rng.choice(names)])
        elif kind == 'monotone_prev' and names:
            src = quanti[rng.choice(names)]
            v = [None if x is None else round(x ** 3 + 2 * x, 6) for x in src]
        elif kind == 'noisy_prev' and names:
            src = quanti[rng.choice(names)]
            v = [None if x is None else round(x + rng.gauss(0, 0.05), 3) for x in src]
        elif kind == 'neg_prev' and names:
            src = quanti[rng.choice(names)]
            v = [None if x is None else round(-x + rng.gauss(0, 0.02), 3) for x in src]
        elif kind in ('outlier_low', 'outlier_high'):
            sign = -1 if kind == 'outlier_low' else 1
            v = [round(z[0][i] + rng.gauss(0, 0.5), 3) for i in range(n)]
            for i in rng.sample(range(n), 2):
                v[i] = round(sign * rng.uniform(25, 40), 3)
        elif kind == 'discrete':
            v = [float(rng.randint(0, 3)) for _ in range(n)]
        elif kind == 'constant':
            v = [1.0] * n
        elif kind == 'mode_heavy':
            # mostly unknown; where it is known, one value dominates (its share of ALL rows stays moderate)
            v = [None if rng.random() < 0.55 else (0.0 if rng.random() < 0.85 else round(1 + z[0][i] + rng.gauss(0, 0.3), 3)) for i in range(n)]
        elif kind == 'nan_heavy':
            v = [None if rng.random() < 0.4 else round(z[0][i] + rng.gauss(0, 1), 3) for i in range(n)]
        else:
            v = [round(rng.gauss(0, 1), 3) for _ in range(n)]
        if rng.random() < 0.2 and kind not in ('constant',):
            v = [None if rng.random() < 0.1 else x for x in v]
        quanti[f'q{j}'] = v
    quali = {}
    for j in range(nk):
        kind = rng.choice(['latent0', 'noise', 'copy_prev'])
        names = list(quali)
        if kind == 'latent0':
            v = [('hi' if z[0][i] > 0.5 else 'mid' if z[0][i] > -0.5 else 'lo') for i in range(n)]
        elif kind == 'copy_prev' and names:
            v = list(quali[rng.choice(names)])
        else:
            v = [rng.choice(['a', 'b', 'c']) for _ in range(n)]
        if rng.random() < 0.25:
            v = [None if rng.random() < 0.2 else x for x in v]          # missing values in a qualitative feature
        quali[f'k{j}'] = v
    spec = {'task': task, 'quanti': quanti, 'quali': quali, 'y': y,
            'n_best': rng.randint(1, max(1, nq + nk)), 'thresh_corr': rng.choice([1, 1, 0.9, 0.7, 0.5]),
            'measures': rng.choice(['default', 'default', 'alt'] + (['outlier', 'outlier_iqr', 'multi'] if task == 'classification' else [])),
            'copy_of_target': False, 'select_twice': rng.random() < 0.3 and not r_only,
            # user-set screens on the share of the mode / of missing values (None: the defaults, 0.999)
            'thresh_mode': rng.choice([None, None, 0.9, 0.6, 0.5]), 'thresh_nan': rng.choice([None, None, None, 0.5, 0.3])}
    # the caller's feature lists name some columns twice (e.g. two overlapping candidate lists concatenated):
    # `select` returns distinct features all the same
    spec['dup_names'] = rng.random() < 0.12
    if not r_only and rng.random() < 0.08:
        spec['colsample'] = 0.5         # features first screened in random halves (n_best // 2 kept per half), then together
    if r_only:
        spec['measures'] = 'ronly'
        if rng.random() < 0.7:
            # a feature strictly monotone but far from linear in the class codes, next to a nearly linear noisy one
            fn = rng.choice([lambda v: float(v) ** 3 + float(v), lambda v: round(math.exp(2.0 * float(v)), 9), lambda v: -1.0 / (1.0 + float(v))])
            spec['quanti']['qcopy'] = [fn(v) for v in y]
            spec['quanti']['qlin'] = [round(float(v) + rng.gauss(0, 0.04), 4) for v in y]
            spec['copy_of_target'] = 'qcopy'
            spec['n_best'] = rng.choice([1, 1, 2])
    elif rng.random() < 0.3:
        # a feature that is an exact copy of / strictly monotone in the target
        if task == 'regression' or rng.random() < 0.5:
            style = rng.choice(['copy', 'affine', 'cube', 'exp'])
            fn = {'copy': float, 'affine': lambda v: float(v) * 3 + 1, 'cube': lambda v: float(v) ** 3 + float(v),
                  'exp': lambda v: round(math.exp(min(float(v), 20.0)), 9)}[style]       # (strictly monotone, not linear, in the target)
            spec['quanti']['qcopy'] = [fn(v) for v in y]
            spec['copy_of_target'] = 'qcopy'
        else:
            spec['quali']['kcopy'] = ['cls%s' % v for v in y]
            spec['copy_of_target'] = 'kcopy'
    return spec


def frames(spec):
    import pandas as pd
    data = {}
    for f, v in spec['quanti'].items():
        data[f] = pd.Series([np.nan if x is None else float(x) for x in v], dtype=float)
    for f, v in spec['quali'].items():
        data[f] = pd.Series([np.nan if x is None else x for x in v], dtype=object)
    X = pd.DataFrame(data)
    cols = spec.get('column_order')
    if cols:
        X = X[cols]
    y = pd.Series(spec['y'])
    if spec.get('row_order'):
        X = X.iloc[spec['row_order']].reset_index(drop=True)
        y = y.iloc[spec['row_order']].reset_index(drop=True)
    if spec.get('row_order_keep_labels'):
        # the rows of X and y in another order, every row still carrying its original index label
        X = X.iloc[spec['row_order_keep_labels']]
        y = y.iloc[spec['row_order_keep_labels']]
    return X, y


def make_selector(spec):
    from AutoCarver import selectors as S
    kw = dict(n_best=spec['n_best'], quantitative_features=list(spec['quanti']), qualitative_features=list(spec['quali']),
              thresh_corr=spec['thresh_corr'])
    if spec.get('dup_names'):
        for key in ('quantitative_features', 'qualitative_features'):
            kw[key] = kw[key] + kw[key][:1] + kw[key][-1:]
    if spec.get('colsample'):
        kw['colsample'] = spec['colsample']
    if spec.get('thresh_mode') is not None:
        kw['thresh_mode'] = spec['thresh_mode']
    if spec.get('thresh_nan') is not None:
        kw['thresh_nan'] = spec['thresh_nan']
    if spec['task'] == 'classification':
        if spec['measures'] == 'outlier':       # user-supplied outlier screen before the association measure
            kw['quantitative_measures'] = [S.zscore_measure, S.kruskal_measure]
            kw['thresh_zscore'] = 0.03
        if spec['measures'] == 'outlier_iqr':   # the other public outlier screen (inter-quartile range)
            kw['quantitative_measures'] = [S.iqr_measure, S.kruskal_measure]
            kw['thresh_iqr'] = 0.05
        if spec['measures'] == 'ronly':         # a user-chosen measure: the correlation ratio (R of x on the classes of y)
            kw['quantitative_measures'] = [S.R_measure]
        if spec['measures'] == 'multi':         # two association measures, both evaluated
            kw['quantitative_measures'] = [S.kruskal_measure, S.R_measure]
            kw['thresh_kruskal'] = 1e12
        if spec['measures'] == 'alt':
            kw['qualitative_measures'] = [S.cramerv_measure]
            kw['quantitative_filters'] = [S.pearson_filter]
            kw['qualitative_filters'] = [S.cramerv_filter]
        return S.ClassificationSelector(**kw), kw
    if spec['measures'] == 'alt':
        kw['quantitative_filters'] = [S.pearson_filter]
    return S.RegressionSelector(**kw), kw


# ---- independent recomputation -----------------------------------------------------------------

def _ranks(a):
    from scipy.stats import rankdata
    return rankdata(a)


def kruskal_h(groups):
    groups = [np.asarray(g, dtype=float) for g in groups]
    if any(len(g) == 0 for g in groups):
        return None
    allv = np.concatenate(groups)
    n = len(allv)
    if n < 2 or len(set(allv.tolist())) < 2:
        return None
    r = _ranks(allv)
    h, k = 0.0, 0
    for g in groups:
        rg = r[k:k + len(g)]
        k += len(g)
        h += rg.sum() ** 2 / len(g)
    h = 12.0 / (n * (n + 1)) * h - 3 * (n + 1)
    _, counts = np.unique(allv, return_counts=True)
    tie = 1 - (counts ** 3 - counts).sum() / float(n ** 3 - n)
    if tie == 0:
        return None
    return h / tie


def chi2_stat(xs, ys):
    pairs = [(a, b) for a, b in zip(xs, ys) if a is not None and b is not None and not (isinstance(a, float) and math.isnan(a))]
    xa = sorted(set(a for a, _ in pairs), key=repr)
    ya = sorted(set(b for _, b in pairs), key=repr)
    if len(xa) < 1 or len(ya) < 1:
        return None, 0, 0, 0
    t = np.zeros((len(xa), len(ya)))
    for a, b in pairs:
        t[xa.index(a), ya.index(b)] += 1
    n = t.sum()
    exp = np.outer(t.sum(1), t.sum(0)) / n
    if (exp == 0).any():
        return None, n, len(xa), len(ya)
    if (len(xa) - 1) * (len(ya) - 1) == 1:          # scipy's default continuity correction for 2x2
        diff = exp - t
        t = t + np.sign(diff) * np.minimum(0.5, np.abs(diff))
    return float(((t - exp) ** 2 / exp).sum()), n, len(xa), len(ya)


def tschuprow(xs, ys):
    c, n, r, k = chi2_stat(xs, ys)
    if c is None:
        return None
    d = math.sqrt((r - 1) * (k - 1))
    return math.sqrt(c / n / d) if d > 0 else 0.0


def cramer(xs, ys):
    c, n, r, k = chi2_stat(xs, ys)
    if c is None or min(r, k) < 2:
        return None
    return math.sqrt(c / n / (min(r, k) - 1))


def pearson(a, b):
    pa = [(x, y) for x, y in zip(a, b) if x is not None and y is not None]
    if len(pa) < 2:
        return None
    x = np.array([p[0] for p in pa], dtype=float)
    y = np.array([p[1] for p in pa], dtype=float)
    if x.std() == 0 or y.std() == 0:
        return None
    return float(((x - x.mean()) * (y - y.mean())).sum() / math.sqrt(((x - x.mean()) ** 2).sum() * ((y - y.mean()) ** 2).sum()))


def spearman(a, b):
    pa = [(x, y) for x, y in zip(a, b) if x is not None and y is not None]
    if len(pa) < 2:
        return None
    return pearson(list(_ranks([p[0] for p in pa])), list(_ranks([p[1] for p in pa])))


def scaled(v):
    if v is None or (isinstance(v, float) and (math.isnan(v) or math.isinf(v))):
        return -1
    return int(round(float(v) * SCALE))


def eta(x, y):
    """correlation ratio: sqrt of the R2 of the regression of x on the classes of y"""
    pairs = [(v, c) for v, c in zip(x, y) if v is not None]
    if len(pairs) < 2:
        return None
    xs = np.array([p[0] for p in pairs], dtype=float)
    sst = ((xs - xs.mean()) ** 2).sum()
    if sst == 0:
        return None
    ssb = 0.0
    for cl in set(c for _, c in pairs):
        g = np.array([v for v, c in pairs if c == cl], dtype=float)
        ssb += len(g) * (g.mean() - xs.mean()) ** 2
    r2 = ssb / sst
    return math.sqrt(r2) if r2 > 0 else None


def zscore_discards(x, thresh):
    nn = np.array([v for v in x if v is not None], dtype=float)
    if len(nn) < 2:
        return False
    std = nn.std(ddof=1)
    if std == 0:
        return False
    out = sum(1 for v in x if v is not None and abs((v - nn.mean()) / std) > 3)
    return not (out / len(x) < thresh)


def iqr_discards(x, thresh):
    """share of the rows outside [q1 - 1.5 iqr, q3 + 1.5 iqr] (quartiles of the known values, linear interpolation;
    a row without value is outside, as in the library) not below the threshold"""
    nn = np.array([v for v in x if v is not None], dtype=float)
    if len(nn) == 0:
        return True
    q1, q3 = np.percentile(nn, 25), np.percentile(nn, 75)
    lo, hi = q1 - 1.5 * (q3 - q1), q3 + 1.5 * (q3 - q1)
    out = sum(1 for v in x if v is None or not (lo <= v <= hi))
    return not (out / len(x) < thresh)


def reference_measure(spec, f, which=0):
    """independent value of the ranking measure of feature f, or None when undefined / discarded;
    `which` selects the measure when several are evaluated (spec['measures'] == 'multi')"""
    y = spec['y']
    t_mode = spec.get('thresh_mode') or 0.999
    t_nan = spec.get('thresh_nan') or 0.999
    if f in spec['quanti']:
        x = spec['quanti'][f]
        nn = [v for v in x if v is not None]
        if len(nn) == 0 or (len(x) - len(nn)) / len(x) >= t_nan:
            return None
        mode = max(set(nn), key=lambda v: (nn.count(v), -v))
        if nn.count(mode) / len(x) >= t_mode:         # share of the mode among ALL rows
            return None
        if spec['task'] == 'classification':
            if spec['measures'] == 'outlier' and zscore_discards(x, 0.03):
                return None
            if spec['measures'] == 'outlier_iqr' and iqr_discards(x, 0.05):
                return None
            if (spec['measures'] == 'multi' and which == 1) or spec['measures'] == 'ronly':
                return eta(x, y)
            classes = list(dict.fromkeys(y))
            return kruskal_h([[v for v, c in zip(x, y) if v is not None and c == cl] for cl in classes])
        r = pearson(x, [float(v) for v in y])
        return None if r is None else 1 - r
    x = spec['quali'][f]
    xn = [v for v in x if v is not None]
    if not xn or (len(x) - len(xn)) / len(x) >= t_nan:
        return None
    mode = max(set(xn), key=xn.count)
    if xn.count(mode) / len(x) >= t_mode:
        return None
    if spec['task'] == 'classification':
        return cramer(x, y) if spec['measures'] == 'alt' else tschuprow(x, y)
    if len(xn) < len(x):
        # RegressionSelector convention: the missing values of a qualitative feature form a category of
        # their own that holds no row, which leaves the Kruskal-Wallis statistic undefined
        return None
    cats = list(dict.fromkeys(xn))
    return kruskal_h([[float(c) for v, c in zip(x, y) if v == cat] for cat in cats])


def identical_columns(spec, f, g):
    """the two columns carry exactly the same information: equal values (quantitative), or equal up to
    a renaming of the categories (qualitative)"""
    if f in spec['quanti'] and g in spec['quanti']:
        a, b = spec['quanti'][f], spec['quanti'][g]
        return all((x is None) == (y is None) for x, y in zip(a, b)) and \
            (all(x == y for x, y in zip(a, b) if x is not None) or all(x == -y for x, y in zip(a, b) if x is not None)) and \
            len(set(v for v in a if v is not None)) > 1
    if f in spec['quali'] and g in spec['quali']:
        a, b = spec['quali'][f], spec['quali'][g]
        return len(set(zip(a, b))) == len(set(a)) == len(set(b)) and len(set(a)) > 1
    return False


def reference_assoc(spec, f, g):
    if identical_columns(spec, f, g):
        return 1.0
    if f in spec['quanti'] and g in spec['quanti']:
        use_pearson = spec['measures'] == 'alt'
        r = (pearson if use_pearson else spearman)(spec['quanti'][f], spec['quanti'][g])
        return 0.0 if r is None else abs(r)
    if f in spec['quali'] and g in spec['quali']:
        fn = cramer if (spec['task'] == 'classification' and spec['measures'] == 'alt') else tschuprow
        r = fn(spec['quali'][f], spec['quali'][g])
        return 0.0 if r is None else r
    return 0.0


def code_measures(sel_obj, spec, X, y):
    """the library's own measure table (public helper apply_measures), per feature"""
    from AutoCarver.selectors.base_selector import apply_measures
    out = {}
    for dtype, feats in (('float', list(spec['quanti'])), ('str', list(spec['quali']))):
        if not feats:
            continue
        with contextlib.redirect_stdout(io.StringIO()):
            tab = apply_measures(X, y, measures=sel_obj.measures[dtype], features=feats, **sel_obj.kwargs)
        cols = [c for c in tab.columns if c.endswith('_measure')]
        for f in feats:
            vals = []
            for c in cols:
                v = tab.loc[f, c]
                vals.append(None if (v is None or (isinstance(v, float) and math.isnan(v))) else float(v))
            out[f] = vals
    return out


def run_select(spec):
    X, y = frames(spec)
    Xb, yb = X.copy(deep=True), y.copy(deep=True)
    sel_obj, kw = make_selector(spec)
    exc = None
    res = []
    try:
        with contextlib.redirect_stdout(io.StringIO()):
            if spec.get('select_twice'):
                # an earlier call on other data must not influence this one (no state kept between calls)
                y0 = y.iloc[::-1].reset_index(drop=True)
                try:
                    sel_obj.select(X.copy(deep=True), y0)
                except Exception:
                    pass
            res = sel_obj.select(X, y)
    except Exception as e:
        exc = e
    unchanged = bool(X.equals(Xb) and y.equals(yb) and list(X.columns) == list(Xb.columns))
    return sel_obj, res, exc, unchanged, X, y


def case_for(seed):
    spec = gen_spec(seed)
    return case_of_spec(spec, f'sel{seed}', {'driver': 'selector.case_for', 'args': {'seed': seed}})


def case_of_spec(spec, cid, meta):
    sel_obj, res, exc, unchanged, X, y = run_select(spec)
    feats = list(spec['quanti']) + list(spec['quali'])
    fid = {f: i + 1 for i, f in enumerate(feats)}
    try:
        cm = code_measures(sel_obj, spec, X, y) if exc is None else {}
    except Exception:
        cm = {}
    def assoc_scaled(f, g):
        v = scaled(reference_assoc(spec, f, g))
        if v == SCALE and not identical_columns(spec, f, g):
            v = SCALE - 1
        return v
    a = [[assoc_scaled(f, g) if f != g else 0 for g in feats] for f in feats]
    groups = []
    for gi, names in enumerate((list(spec['quanti']), list(spec['quali']))):
        if names:
            nm = 2 if (gi == 0 and spec['measures'] == 'multi' and spec['task'] == 'classification') else 1
            mrefs = [[scaled(reference_measure(spec, f, k)) if f in names else -1 for f in feats] for k in range(nm)]
            mcodes = [[scaled((cm.get(f) or [None] * nm)[k] if (f in names and len(cm.get(f) or []) > k) else None) for f in feats] for k in range(nm)]
            groups.append({'feats': [fid[f] for f in names], 'sel': [fid[f] for f in res if f in names],
                           'nbest': spec['n_best'], 'thr': scaled(spec['thresh_corr']), 'mrefs': mrefs, 'mcodes': mcodes,
                           # random column sampling: which features reach the final round is not determined by the data
                           'sampled': bool(spec.get('colsample'))})
    mref = [max((g['mrefs'][0][i] for g in groups), default=-1) for i in range(len(feats))]
    mcode = [max((g['mcodes'][0][i] for g in groups), default=-1) for i in range(len(feats))]
    must = [fid[spec['copy_of_target']]] if spec.get('copy_of_target') else []
    if must and reference_measure(spec, spec['copy_of_target']) is None:
        must = []       # the copy itself fails a user-set screen (share of its mode / of missing values): nothing is owed
    if spec.get('colsample'):
        must = []       # (with n_best // 2 = 0 a half returns nothing)
    meta = dict(meta)
    meta.update({'task': spec['task'], 'measures': spec['measures'], 'selected': list(res), 'exc': None if exc is None else repr(exc)[:300],
                 'default_regression_quantitative': spec['task'] == 'regression' and bool(spec['quanti'])})
    return {'id': cid, 'groups': groups, 'mref': mref, 'mcode': mcode, 'a': a, 'must': must,
            'inputs_unchanged': unchanged, 'outcome': 0 if exc is None else (1 if isinstance(exc, AssertionError) else 2), 'meta': meta}


# ---- C15: re-encodings -------------------------------------------------------------------------

def reencodings(spec, seed):
    rng = random.Random(seed * 17 + 3)
    out = []
    n = len(spec['y'])
    if spec['quanti']:
        f = rng.choice(list(spec['quanti']))
        s = copy.deepcopy(spec)
        s['quanti'][f] = [None if v is None else -v for v in s['quanti'][f]]
        out.append(('negate_' + f, s))
        s = copy.deepcopy(spec)
        a = rng.choice([2.0, 0.5, 4.0, 1e-9, 1e9, 2.0 ** -30])
        s['quanti'][f] = [None if v is None else v * a for v in s['quanti'][f]]
        out.append((f'scale_{a}_' + f, s))
    if spec['quali']:
        f = rng.choice(list(spec['quali']))
        s = copy.deepcopy(spec)
        vals = sorted(set(v for v in s['quali'][f] if v is not None))
        ren = {v: 'r%d' % i for i, v in enumerate(reversed(vals))}
        s['quali'][f] = [None if v is None else ren[v] for v in s['quali'][f]]
        out.append(('rename_' + f, s))
    s = copy.deepcopy(spec)
    perm = list(range(n))
    rng.shuffle(perm)
    s['row_order'] = perm
    out.append(('row_permutation', s))
    s = copy.deepcopy(spec)
    perm = list(range(n))
    rng.shuffle(perm)
    s['row_order_keep_labels'] = perm
    out.append(('row_permutation_keeping_labels', s))
    s = copy.deepcopy(spec)
    cols = list(spec['quanti']) + list(spec['quali'])
    rng.shuffle(cols)
    s['column_order'] = cols
    out.append(('column_permutation', s))
    return out


def reencode_case(seed):
    spec = gen_spec(seed)
    spec.pop('colsample', None)         # random column sampling is not a function of the data
    feats = list(spec['quanti']) + list(spec['quali'])
    fid = {f: i + 1 for i, f in enumerate(feats)}

    def run(s):
        _, res, exc, _, _, _ = run_select(s)
        return {'kept': [fid[f] for f in res] if exc is None else [-1], 'parts': [[] for _ in feats], 'absin': [], 'outcome': 0 if exc is None else 2}
    ref = run(spec)
    vs = []
    for kind, s in reencodings(spec, seed):
        e = run(s)
        e.update({'kind': kind, 'clause_kept': 'C15_selection_changed_by_' + kind.split('_')[0], 'clause_part': 'C15_unused',
                  # a column permutation leaves every computed value bit-identical: no tie tolerance there
                  'strict': kind == 'column_permutation'})
        vs.append(e)
    tie_m = [scaled(reference_measure(spec, f)) for f in feats]
    tie_g = [1 if f in spec['quanti'] else 2 for f in feats]
    # features that have a twin: another feature of the type carrying exactly the same information (|association| = 1)
    twins = [fid[f] for f in feats if any(g != f and (f in spec['quanti']) == (g in spec['quanti']) and reference_assoc(spec, f, g) >= 1 - 1e-9 for g in feats)]
    # several measures evaluated together: features whose second measure (correlation ratio) is zero / undefined up to rounding
    zero_m2 = [fid[f] for f in spec['quanti'] if spec['measures'] == 'multi' and scaled(reference_measure(spec, f, 1)) <= 3]
    return {'id': f'selre{seed}', 'ordered': True, 'tie_m': tie_m, 'tie_g': tie_g, 'ref': ref, 'variants': vs, 'twins': twins, 'zero_m2': zero_m2,
            'meta': {'driver': 'selector.reencode_case', 'args': {'seed': seed}, 'task': spec['task'], 'measures': spec['measures'],
                     'default_regression_quantitative': spec['task'] == 'regression' and bool(spec['quanti'])}}
