"""Carver driver: runs a real BinaryCarver / ContinuousCarver fit described by a JSON-able
`spec`, observes the base modalities produced by the carver's own internal Discretizer (by
wrapping the `Discretizer` name inside AutoCarver.carvers.base_carver), the history, the fitted
grouping and the transform outputs, and projects all of it to the integer world of
specs/CarverTrace.tla (one case per feature).

spec = {
  'carver': 'binary' | 'continuous',
  'features': {name: {'kind': 'quanti'|'ordinal'|'categ', 'values': [...], 'order': [...]}},
  'y': [...],
  'dev': None | {'features': {name: [...]}, 'y': [...]},
  'params': {'sort_by', 'min_freq': [p, q], 'min_freq_mod': None | [p, q], 'max_n_mod', 'dropna', 'output_dtype'},
}
Values are numbers, strings or None (missing).
"""
from __future__ import annotations

import math
import traceback
from fractions import Fraction

STR_NAN = '__NAN__'


def _frames(spec):
    import numpy as np
    import pandas as pd

    def col(vals, kind):
        if kind == 'quanti':
            return pd.Series([np.nan if v is None else float(v) for v in vals], dtype=float)
        return pd.Series([np.nan if v is None else v for v in vals], dtype=object)

    feats = spec['features']
    X = pd.DataFrame({f: col(d['values'], d['kind']) for f, d in feats.items()})
    y = pd.Series(spec['y'])
    Xd = yd = None
    if spec.get('dev'):
        Xd = pd.DataFrame({f: col(v, feats[f]['kind']) for f, v in spec['dev']['features'].items()})
        yd = pd.Series(spec['dev']['y'])
    return X, y, Xd, yd


def make_carver(spec, **override):
    from AutoCarver.carvers import BinaryCarver, ContinuousCarver
    p = dict(spec['params'])
    p.update(override)
    feats = spec['features']
    kw = dict(
        quantitative_features=[f for f, d in feats.items() if d['kind'] == 'quanti'],
        qualitative_features=[f for f, d in feats.items() if d['kind'] == 'categ'],
        ordinal_features=[f for f, d in feats.items() if d['kind'] == 'ordinal'],
        values_orders={f: list(d['order']) for f, d in feats.items() if d['kind'] == 'ordinal'},
        min_freq=p['min_freq'][0] / p['min_freq'][1],
        max_n_mod=p['max_n_mod'],
        dropna=bool(p['dropna']),
        output_dtype=p.get('output_dtype', 'float'),
        copy=bool(p.get('copy', True)),
        verbose=bool(p.get('verbose', False)),
    )
    if p.get('min_freq_mod') is not None:
        kw['min_freq_mod'] = p['min_freq_mod'][0] / p['min_freq_mod'][1]
    if kw['verbose']:
        kw['pretty_print'] = False        # plain-text tables (the html ones need jinja2, absent from the sandbox)
    if p.get('n_jobs'):
        kw['n_jobs'] = p['n_jobs']
    if spec['carver'] == 'binary':
        return BinaryCarver(sort_by=p['sort_by'], **kw)
    return ContinuousCarver(**kw)


class Recorder:
    """Replaces the name `Discretizer` inside base_carver for the duration of one fit."""

    def __init__(self):
        self.disc = None
        self.outs = []
        self.features = []
        self.values_orders = {}
        self.labels_per_values = {}

    def __enter__(self):
        import AutoCarver.carvers.base_carver as bc
        rec = self
        orig = bc.Discretizer

        class RecDiscretizer(orig):
            def fit(self, X, y=None):
                rec.disc = self
                res = super().fit(X, y)
                # snapshot: the carver goes on mutating these very GroupedList objects
                from AutoCarver.discretizers import GroupedList
                rec.features = list(self.features)
                rec.values_orders = {f: GroupedList(v) for f, v in self.values_orders.items()}
                rec.labels_per_values = {f: dict(v) for f, v in self.labels_per_values.items()}
                return res

            def transform(self, X, y=None):
                out = super().transform(X, y)
                rec.outs.append(out.copy())
                return out

        self._bc, self._orig = bc, orig
        bc.Discretizer = RecDiscretizer
        return self

    def __exit__(self, *a):
        self._bc.Discretizer = self._orig


def _isnan(v):
    return isinstance(v, float) and math.isnan(v)


def _mfm(spec):
    p = spec['params']
    if p.get('min_freq_mod') is not None:
        fr = Fraction(p['min_freq_mod'][0], p['min_freq_mod'][1])
    else:
        fr = Fraction(p['min_freq'][0], p['min_freq'][1]) / 2
    return [fr.numerator, fr.denominator]


def outcome_of(exc):
    if exc is None:
        return 'ok'
    return 'AssertionError' if isinstance(exc, AssertionError) else type(exc).__name__


def run_fit(spec):
    """Fit the real carver with recording; returns (carver, recorder, outcome, exc_text, frames)."""
    X, y, Xd, yd = _frames(spec)
    carver = make_carver(spec)
    exc = None
    import contextlib
    import io
    with Recorder() as rec, contextlib.redirect_stdout(io.StringIO()), contextlib.redirect_stderr(io.StringIO()):      # (verbose fits print tables and progress bars)
        try:
            if Xd is not None:
                carver.fit(X, y, X_dev=Xd, y_dev=yd)
            else:
                carver.fit(X, y)
        except Exception as e:  # observation, judged by C08/C19 clauses
            exc = e
    return carver, rec, outcome_of(exc), (None if exc is None else ''.join(traceback.format_exception_only(type(exc), exc)).strip()[:300]), (X, y, Xd, yd)


def feature_cases(spec, tag=''):
    """Run the fit and build one CarverTrace case per feature (plus a fit-level record)."""
    carver, rec, outcome, exc_text, (X, y, Xd, yd) = run_fit(spec)
    p = spec['params']
    cases = []
    fit_info = {'outcome': outcome, 'exc': exc_text, 'kept': list(getattr(carver, 'features', []))}
    if outcome != 'ok' or rec.disc is None or not rec.outs:
        return cases, fit_info, carver
    disc = rec.disc
    xb = rec.outs[0]
    xbd = rec.outs[1] if (Xd is not None and len(rec.outs) > 1) else None
    cont = spec['carver'] == 'continuous'
    try:
        out_tr = carver.transform(X.copy())
        out_exc = None
    except Exception as e:
        out_tr, out_exc = None, e
    out_dv = None
    if Xd is not None and out_exc is None:
        try:
            out_dv = carver.transform(Xd.copy())
        except Exception as e:
            out_exc = e
    fit_info['transform_outcome'] = outcome_of(out_exc)
    for f, d in spec['features'].items():
        case = {'id': f'{tag}:{f}', 'feature': f, 'events': [], 'flags': []}
        meta = {'driver': 'carve.feature_cases', 'args': {'spec': spec}, 'feature': f}
        case['meta'] = meta
        if f not in rec.features:
            case['flags'].append('base_removed')
            case['skip'] = 'base_removed'
            cases.append(case)
            continue
        leaders = list(rec.values_orders[f])
        has_nan = STR_NAN in leaders
        base = [v for v in leaders if v != STR_NAN]
        lpv = rec.labels_per_values[f]
        labels = [lpv[v] for v in base]
        if len(set(labels)) != len(labels) or STR_NAN in labels:
            case['skip'] = 'ambiguous_labels'
            cases.append(case)
            continue
        lab2id = {lab: i + 1 for i, lab in enumerate(labels)}
        lab2id[STR_NAN] = 0
        K = len(base)

        def table(xcol, ys):
            if cont:
                cells = [[] for _ in range(K + 1)]
            else:
                cells = [[0, 0] for _ in range(K + 1)]
            for lab, yy in zip(list(xcol), list(ys)):
                if _isnan(lab):
                    lab = STR_NAN
                i = lab2id.get(lab)
                if i is None:
                    return None
                if cont:
                    cells[i].append(int(yy))
                else:
                    cells[i][int(yy)] += 1
            if cont:
                cells = [sorted(c) for c in cells]
            return cells

        tr = table(xb[f], y)
        dv = table(xbd[f], yd) if xbd is not None else [([] if cont else [0, 0]) for _ in range(K + 1)]
        if tr is None or dv is None:
            case['skip'] = 'unmappable_base_label'
            cases.append(case)
            continue
        if cont and any(int(v) != v or v < 0 for v in spec['y']):
            case['skip'] = 'non_natural_y'
            cases.append(case)
            continue
        # the lexicographic rank of the group keys (what numpy.unique / groupby sort by)
        allkeys = sorted(set(labels + [STR_NAN]))
        lexrank = [allkeys.index(STR_NAN) + 1] + [allkeys.index(lab) + 1 for lab in labels]
        case['tab'] = {'kind': 'cont' if cont else 'bin', 'k': K, 'tr': tr[1:], 'trnan': tr[0],
                       'dv': dv[1:], 'dvnan': dv[0]}
        case['cfg'] = {'measure': carver.sort_by, 'maxmod': p['max_n_mod'], 'mfm': _mfm(spec),
                       'dropna': bool(p['dropna']), 'hasdev': Xd is not None, 'hasnan': has_nan}
        case['lexrank'] = lexrank       # index 1 = missing-value key, then buckets 1..K
        case['fkind'] = d['kind']
        kept = f in carver.features
        case['kept'] = kept
        # ---- history ----
        hist = (carver._history or {}).get(f, [])
        quanti = d['kind'] == 'quanti'

        def groups_of(comb):
            """history combination (lists of labels / raw values) -> lists of bucket ids"""
            out = []
            seen = set()
            for grp in comb:
                ids = []
                if quanti:
                    for el in grp:
                        i = lab2id.get(el)
                        if i is None:
                            return None
                        ids.append(i)
                else:
                    els = list(grp)
                    for i, ldr in enumerate(base):
                        if any((e == ldr) and (type(e) is type(ldr) or isinstance(e, str) == isinstance(ldr, str)) for e in els):
                            ids.append(i + 1)
                    if any(e == STR_NAN for e in els if isinstance(e, str)):
                        ids.append(0)
                if set(ids) & seen:
                    return None
                seen |= set(ids)
                out.append(sorted(ids, key=lambda i: (i == 0, i)))
            return out

        events = []
        bad_hist = False
        for n, row in enumerate(hist):
            if 'combination' not in row:
                events.append({'ev': 'removed_mark'})
                continue
            g = groups_of(row['combination'])
            if g is None:
                bad_hist = True
                break
            m = row.get(carver.sort_by)
            mscaled = -1 if (m is None or _isnan(float(m))) else int(round(float(m) * 1_000_000))
            v = row.get('viability')
            events.append({'ev': 'raw' if row.get('viability_message') == ['Raw X distribution'] else 'tested',
                           'g': g, 'm': mscaled, 'viab': (-1 if v is None else int(bool(v))),
                           'stage': 2 if row.get('grouping_nan') else 1,
                           'notchecked': int(row.get('viability_message') == ['Not checked'])})
        if bad_hist:
            case['flags'].append('unmappable_history')
            events = []
        case['events'] = events
        case['histok'] = not bad_hist
        # ---- fitted grouping ----
        final = []
        if kept:
            vo = carver.values_orders[f]
            ok = True
            seen = set()
            for ldr in list(vo):
                content = vo.content.get(ldr, [])
                ids = []
                for i, b in enumerate(base):
                    if any((c == b) and (isinstance(c, str) == isinstance(b, str)) for c in content):
                        ids.append(i + 1)
                if any(isinstance(c, str) and c == STR_NAN for c in content):
                    ids.append(0)
                if set(ids) & seen:
                    ok = False
                seen |= set(ids)
                final.append(ids)
            if not ok or seen != set(range(1, K + 1)) | ({0} if has_nan else set()):
                case['flags'].append('final_not_a_partition')
        case['final'] = final
        # ---- transform outputs (C02) ----
        def outs(frame, Xraw, ys):
            if frame is None or f not in frame.columns:
                return []
            tbl = {}
            rows = []
            for lab, raw, yy in zip(list(frame[f]), list(Xraw[f]), list(ys)):
                wasnan = raw is None or _isnan(raw)
                if _isnan(lab) or lab is None:
                    code = 0
                else:
                    key = (type(lab).__name__ if isinstance(lab, str) else 'num', lab)
                    code = tbl.setdefault(key, len(tbl) + 1)
                rows.append([code, int(yy), int(wasnan)])
            return rows
        case['out_tr'] = outs(out_tr, X, y) if kept else []
        case['out_dv'] = outs(out_dv, Xd, yd) if (kept and Xd is not None) else []
        if kept and out_tr is not None and Xd is not None and out_dv is not None:
            # share one label table between train and dev outputs
            tbl = {}
            def recode(frame, Xraw, ys):
                rows = []
                for lab, raw, yy in zip(list(frame[f]), list(Xraw[f]), list(ys)):
                    wasnan = raw is None or _isnan(raw)
                    if _isnan(lab) or lab is None:
                        code = 0
                    else:
                        code = tbl.setdefault(('s' if isinstance(lab, str) else 'n', lab), len(tbl) + 1)
                    rows.append([code, int(yy), int(wasnan)])
                return rows
            case['out_tr'] = recode(out_tr, X, y)
            case['out_dv'] = recode(out_dv, Xd, yd)
        case['n_tr'] = len(spec['y'])
        cases.append(case)
    return cases, fit_info, carver
