"""MulticlassCarver driver (C12): one MulticlassCarver fit vs. k independent BinaryCarver fits on
the class indicators (same parameters, fresh values_orders), projected for MulticlassTrace.tla."""
from __future__ import annotations

import random

from . import est_gen
from . import estimator as E


def random_spec(seed):
    rng = random.Random(seed)
    spec = est_gen.random_object_spec(rng, 'MulticlassCarver', n=rng.randint(24, 64))
    if rng.random() < 0.4:
        # numeric class labels whose numeric and string orders disagree (5 < 10 < 20 but "10" < "20" < "5")
        relabel = rng.choice([{0: 5, 1: 10, 2: 20, 3: 100}, {0: 2, 1: 10, 2: 11, 3: 3}, {0: 9, 1: 10, 2: 100, 3: 8}])
        classes = sorted(set(spec['y']), key=str)
        mp = {c: relabel[i] for i, c in enumerate(classes)}
        spec['y'] = [mp[c] for c in spec['y']]
        if spec.get('dev'):
            spec['dev']['y'] = [mp[c] for c in spec['dev']['y']]
    for f, d in spec['features'].items():
        cats = sorted(set(v for v in d['values'] if isinstance(v, str)))
        if d['kind'] == 'categ' and not d.get('listed') and len(cats) >= 3 and all(v is None or isinstance(v, str) for v in d['values']) \
                and rng.random() < 0.35:
            # a previous grouping of the categories reused: two categories already share a group
            d['preset'] = {'grp_' + cats[0]: [cats[0], cats[1], 'grp_' + cats[0]], **{c: [c] for c in cats[2:]}}
    p = spec['params']
    p['min_freq_mod'] = rng.choice([None, [1, 10], [1, 5], [1, 4], [3, 10]])
    p['copy'] = True
    if rng.random() < 0.35:      # a dev sample: bootstrap of the training rows
        n = len(spec['y'])
        idx = [rng.randrange(n) for _ in range(rng.randint(20, 50))]
        classes = list(dict.fromkeys(spec['y']))
        idx[:len(classes)] = [spec['y'].index(c) for c in classes]      # every class present in dev
        spec['dev'] = {'features': {f: [d['values'][i] for i in idx] for f, d in spec['features'].items()},
                       'y': [spec['y'][i] for i in idx]}
    return spec


def fit_case(spec, tag=''):
    import pandas as pd
    from AutoCarver.carvers import BinaryCarver
    o, X, y, kw = E.build(spec)
    Xb = X.copy(deep=True)
    exc = None
    try:
        o.fit(X, y, **kw)
    except Exception as e:
        exc = e
    feats = list(spec['features'])
    fidx = {f: i + 1 for i, f in enumerate(feats)}
    ystr = y.astype(str)
    classes = list(dict.fromkeys(ystr))
    case = {'id': tag, 'labels': [[ord(ch) for ch in c] for c in classes], 'nfeat': len(feats), 'outcome': E.outcome_code(exc),
            'mccols': [], 'binkept': [[] for _ in classes], 'binoutcome': [0 for _ in classes], 'mcout': [], 'binout': [],
            'raw_unchanged': True, 'retransform_same': True,
            'meta': {'driver': 'multiclass.fit_case', 'args': {'spec': spec}, 'exc': E.exc_text(exc), 'min_freq_mod': spec['params'].get('min_freq_mod')}}
    table = {}

    def code(lab):
        if E.isnan(lab):
            return 0
        key = ('s', lab) if isinstance(lab, str) else ('n', float(lab))
        return table.setdefault(key, len(table) + 1)
    out_mc = None
    if exc is None:
        try:
            out_mc = o.transform(Xb.copy(deep=True))
        except Exception as e:
            case['outcome'] = E.outcome_code(e)
            case['meta']['exc'] = E.exc_text(e)
    if out_mc is not None:
        # the output frame still holds the raw columns: transforming it again must rebuild the very same columns
        try:
            again = o.transform(out_mc.copy(deep=True))
            cols = [c for c in out_mc.columns if c not in feats]
            case['retransform_same'] = bool(all(c in again.columns and E.column_identical(again[c], out_mc[c]) for c in cols))
        except Exception:
            case['retransform_same'] = False
        case['raw_unchanged'] = all(E.column_identical(out_mc[f], Xb[f]) for f in feats if f in out_mc.columns) \
            and all(f in out_mc.columns for f in feats)
    p = spec['params']
    for ci, c in enumerate(classes):
        # the reference: an independent BinaryCarver with the same parameters on the indicator of class c
        ref_spec = dict(spec)
        ref_spec['cls'] = 'BinaryCarver'
        ref, Xr, _, kwr = E.build(ref_spec)
        yc = (ystr == c).astype(int)
        kwc = {}
        if kwr:
            kwc = {'X_dev': kwr['X_dev'], 'y_dev': (kwr['y_dev'].astype(str) == c).astype(int)}
        try:
            ref.fit(Xr, yc, **kwc)
            case['binkept'][ci] = sorted(fidx[f] for f in ref.features)
            outb = ref.transform(Xb.copy(deep=True))
            for f in ref.features:
                case['binout'].append([[fidx[f], ci + 1], [code(v) for v in outb[f]]])
        except Exception as e:
            case['binoutcome'][ci] = E.outcome_code(e)
        if out_mc is not None:
            for f in feats:
                name = f'{f}_{c}'
                if name in o.features:
                    case['mccols'].append([fidx[f], ci + 1])
                    case['mcout'].append([[fidx[f], ci + 1], [code(v) for v in out_mc[name]]])
    return case
