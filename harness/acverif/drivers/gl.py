"""GroupedList drivers.

* spec -> code: `replay_transition` executes one transition of the TLC state graph of
  GroupedList.tla on the real class and compares the result with the target state.
* code -> spec: `random_history` executes a seeded random history of valid operations on the real
  class and records one event per call for GroupedListTrace.tla.
"""
from __future__ import annotations

import math
import random

from ..glvalues import Codec, NAN_CODE, norm_fn


def _GL():
    from AutoCarver.discretizers.utils.grouped_list import GroupedList
    return GroupedList


def build(codec: Codec, st: dict):
    """Build a real GroupedList in abstract state `st` without going through its constructor logic."""
    GroupedList = _GL()
    gl = GroupedList([])
    list.extend(gl, codec.dec_seq(st['order']))
    content = norm_fn(st['content'])
    gl.content = {codec.dec(k): codec.dec_seq(content[k]) for k in st['order'] if k in content}
    for k in content:                      # keys that are not leaders (ill-formed source states)
        if k not in st['order']:
            gl.content[codec.dec(k)] = codec.dec_seq(content[k])
    return gl


def project(codec: Codec, gl) -> dict:
    return {'order': codec.enc_seq(list(gl)),
            'content': {codec.enc(k): codec.enc_seq(v) for k, v in gl.content.items()}}


def observe(codec: Codec, gl, obs_codes) -> dict:
    out = {'get': {}, 'group': {}, 'contains': [], 'values': None}
    for c in obs_codes:
        v = codec.dec(c)
        out['get'][c] = codec.enc_seq(gl.get(v))
        out['group'][c] = codec.enc(gl.get_group(v))
        if gl.contains(v):
            out['contains'].append(c)
    out['values'] = codec.enc_seq(gl.values())
    return out


def observe_repr(codec: Codec, gl) -> list:
    """get_repr() read back into structure: [kind, a, b] per text (see GLRepr in GL.tla).  The texts of the
    universe are pairwise distinct and none holds ' and ' / ' to ', so the reading is unambiguous; anything
    unreadable becomes code -1, which no specification state holds."""
    texts = {str(v): c for c, v in codec.values.items()}
    # sort() hands numbers back as numpy floats: 1 may read "1.0"
    texts.update({str(float(v)): c for c, v in codec.values.items() if isinstance(v, (int, float)) and not isinstance(v, bool)})
    out = []
    for r in gl.get_repr(char_limit=40):
        if isinstance(r, str) and ' and ' in r:
            b, a = r.split(' and ', 1)
            out.append([2, texts.get(b, -1), texts.get(a, -1)])
        elif isinstance(r, str) and ' to ' in r:
            b, a = r.split(' to ', 1)
            out.append([3, texts.get(b, -1), texts.get(a, -1)])
        else:
            out.append([1, codec.enc(r), codec.enc(r)])
    return out


def apply_op(codec: Codec, gl, op: str, args):
    """Perform `op(args)` (abstract arguments) on the real object; returns the object that now
    holds the state (the same object, or the new one for constructors / sort / sort_by / copy)."""
    GroupedList = _GL()
    d = codec.dec
    if op == 'fromlist':
        return GroupedList(codec.dec_seq(args[0]))
    if op == 'fromarray':
        import numpy
        return GroupedList(numpy.array(codec.dec_seq(args[0])))
    if op == 'fromdict':
        keys, dd = args
        dd = norm_fn(dd) if not isinstance(dd, dict) else dd
        return GroupedList({d(k): codec.dec_seq(dd[k]) for k in keys})
    if op == 'copy':
        return GroupedList(gl)
    if op == 'group':
        gl.group(d(args[0]), d(args[1]))
        return gl
    if op == 'group_list':
        gl.group_list(codec.dec_seq(args[0]), d(args[1]))
        return gl
    if op == 'append':
        gl.append(d(args[0]))
        return gl
    if op == 'update':
        keys, dd = args
        dd = norm_fn(dd) if not isinstance(dd, dict) else dd
        gl.update({d(k): codec.dec_seq(dd[k]) for k in keys})
        return gl
    if op == 'remove':
        gl.remove(d(args[0]))
        return gl
    if op == 'pop':
        gl.pop(args[0] - 1)
        return gl
    if op == 'sort':
        return gl.sort()
    if op == 'sort_by':
        return gl.sort_by(codec.dec_seq(args[0]))
    if op == 'replace_group_leader':
        gl.replace_group_leader(d(args[0]), d(args[1]))
        return gl
    raise ValueError(op)


def same_sets(a: dict, b: dict) -> bool:
    ca, cb = a['content'], b['content']
    return a['order'] == b['order'] and set(ca) == set(cb) and all(set(ca[k]) == set(cb[k]) for k in ca)


def replay_transition(universe: int, state: dict) -> dict:
    """One state of the TLC dump = one implementation test.  Returns {'fails': [...], 'conf': [...],
    'got': ...}.  `fails` are property-level (C13) clause names."""
    codec = Codec(universe)
    last = state['lastOp']
    op, args, src = last['op'], last['args'], last['from']
    want = {'order': list(state['order']), 'content': {k: list(v) for k, v in norm_fn(state['content']).items()}}
    src = {'order': list(src['order']), 'content': {k: list(v) for k, v in norm_fn(src['content']).items()}}
    fails, conf = [], []
    if op == 'init':
        gl = _GL()([])
        got = project(codec, gl)
        if got != want:
            fails.append('C13_effect')
        return {'fails': fails, 'conf': conf, 'got': got}
    src_obj = build(codec, src)
    try:
        res = apply_op(codec, src_obj, op, args)
    except Exception as e:  # a valid operation must not raise
        return {'fails': ['C13_raised'], 'conf': [], 'got': f'{type(e).__name__}: {e}'}
    got = project(codec, res)
    if not same_sets(got, want):
        fails.append('C13_effect')
    elif got != want:
        conf.append('Conf_member_seq')
    if op in ('copy', 'sort', 'sort_by'):
        if res is src_obj or project(codec, src_obj) != src:
            fails.append('C13_copy_aliasing')        # a new object is returned, the source is left as it was
    # observers against the spec's expectation
    obs = state['obs']
    codes = sorted(norm_fn(obs['get']).keys()) if not isinstance(obs['get'], list) else None
    getf = _fn_with_zero(obs['get'])
    grpf = _fn_with_zero(obs['group'])
    codes = sorted(getf.keys())
    try:
        o = observe(codec, res, codes)
    except Exception as e:
        fails.append('C13_obs_raised')
        return {'fails': fails, 'conf': conf, 'got': got, 'obs': f'{type(e).__name__}: {e}'}
    if 'C13_effect' not in fails:
        if any(list(getf[c]) != o['get'][c] for c in codes):
            # member order inside get() is conformance when the sets agree
            if any(set(getf[c]) != set(o['get'][c]) for c in codes):
                fails.append('C13_obs_get')
            elif got == want:
                fails.append('C13_obs_get')
        if any(grpf[c] != o['group'][c] for c in codes):
            fails.append('C13_obs_get_group')
        if set(o['contains']) != set(obs['contains']):
            fails.append('C13_obs_contains')
        if set(o['values']) != set(obs['values']) or len(o['values']) != len(obs['values']):
            fails.append('C13_obs_values')
    return {'fails': fails, 'conf': conf, 'got': got, 'obs': o}


def _fn_with_zero(f):
    """Function over ObsU = {0} \\cup 1..n : TLC prints it as (0 :> .. @@ 1 :> ..)."""
    if isinstance(f, list):
        return {i + 1: v for i, v in enumerate(f)}
    return dict(f)


# ---------------------------------------------------------------------------------------------
# code -> spec : random histories over the 8-value universe
# ---------------------------------------------------------------------------------------------

def _pairs(d: dict):
    return [[k, list(v)] for k, v in d.items()]


def _valid_ops(rng: random.Random, st: dict, ucodes, fresh: bool):
    """Propose one valid operation (abstract args) for abstract state st (python mirror of the
    Valid* operators of GL.tla -- TLC re-checks validity and flags Drv_invalid_op otherwise)."""
    order, content = st['order'], st['content']
    values = [m for k in content for m in content[k]]
    free = [c for c in ucodes if c not in values]
    if fresh:
        if rng.random() < 0.5:
            kind = rng.choice(['fromlist', 'fromlist', 'fromarray'])
            pool = ucodes
            if kind == 'fromarray':     # a numpy array is homogeneous: one class of values only
                strs = [c for c in ucodes if isinstance(Codec(len(ucodes)).values[c], str)]
                pool = strs if rng.random() < 0.5 else [c for c in ucodes if c not in strs and Codec(len(ucodes)).values[c] is not None]
            k = rng.randint(1, len(pool))
            lst = rng.sample(pool, k)
            return kind, [lst]
        # a valid dict: a random partition, leaders optionally omitted from their own list,
        # some keys absorbed (member of another group, own list empty)
        k = rng.randint(1, len(ucodes))
        vals = rng.sample(ucodes, k)
        ngroups = rng.randint(1, k)
        groups = [[] for _ in range(ngroups)]
        for i, v in enumerate(vals):
            groups[i if i < ngroups else rng.randrange(ngroups)].append(v)
        dd = {}
        absorbed = []
        for g in groups:
            key = g[0] if rng.random() < 0.7 else rng.choice(g)
            members = list(g)
            rng.shuffle(members)
            if rng.random() < 0.4:
                members.remove(key)
            dd[key] = members
            for m in members:
                if m != key and rng.random() < 0.2:
                    absorbed.append(m)
        keys = list(dd)
        for a in absorbed:
            if a not in dd:
                dd[a] = []
                keys.insert(rng.randrange(len(keys) + 1), a)
        return 'fromdict', [keys, _pairs({k: dd[k] for k in keys})]
    cands = []
    if len(order) >= 1:
        cands += ['group', 'remove', 'pop', 'sort_by', 'replace_group_leader', 'copy']
        if 8 not in order or len(ucodes) != 8:          # None cannot be sorted with numbers
            cands += ['sort']
    if len(order) >= 2:
        cands += ['group', 'group', 'group_list', 'sort_by']
    if free:
        cands += ['append', 'append', 'update', 'update']
    if order:
        cands += ['update']
    if not cands:
        cands = ['append'] if free else ['copy']
    op = rng.choice(cands)
    if op == 'group':
        return op, [rng.choice(order), rng.choice(order)]
    if op == 'group_list':
        k = rng.choice(order)
        n = rng.randint(1, min(3, len(order)))
        return op, [rng.sample(order, n), k]
    if op == 'append':
        return op, [rng.choice(free)]
    if op == 'remove':
        return op, [rng.choice(order)]
    if op == 'pop':
        return op, [rng.randint(1, len(order))]
    if op in ('sort', 'copy'):
        return op, []
    if op == 'sort_by':
        p = list(order)
        rng.shuffle(p)
        return op, [p]
    if op == 'replace_group_leader':
        ldr = rng.choice(order)
        return op, [ldr, rng.choice(content[ldr])]
    if op == 'update':
        nkeys = 1 if rng.random() < 0.7 else 2
        dd = {}
        pool = list(free)
        rng.shuffle(pool)
        for _ in range(nkeys):
            if order and (not pool or rng.random() < 0.5):
                key = rng.choice(order)
                if key in dd:
                    continue
                extra = [pool.pop() for _ in range(min(len(pool), rng.randint(0, 2)))]
                mem = list(content[key]) + extra
                if rng.random() < 0.5:
                    rng.shuffle(mem)
                dd[key] = mem
            elif pool:
                key = pool.pop()
                extra = [pool.pop() for _ in range(min(len(pool), rng.randint(0, 2)))]
                mem = [key] + extra
                rng.shuffle(mem)
                dd[key] = mem
        if not dd:
            return 'copy', []
        return op, [list(dd), _pairs(dd)]
    raise AssertionError(op)


def random_history(seed: int, length: int, universe: int = 8) -> dict:
    """Execute a seeded random history on the real GroupedList and record it."""
    codec = Codec(universe)
    rng = random.Random(seed)
    ucodes = sorted(codec.values)
    obs_codes = [NAN_CODE] + ucodes
    gl = None
    shadow_obj = None
    st = {'order': [], 'content': {}}
    events = []
    empty = {'order': [], 'content': []}
    for step in range(length):
        op, args = _valid_ops(rng, st, ucodes, fresh=(gl is None))
        ev = {'op': 'fromlist' if op == 'fromarray' else op, 'a': args, 'exc': 0, 'fresh': 1}
        real_args = [dict((p[0], p[1]) for p in a) if (op in ('fromdict', 'update') and i == 1) else a
                     for i, a in enumerate(args)]
        try:
            old = gl
            res = apply_op(codec, gl, op, real_args)
            if op in ('copy', 'sort', 'sort_by'):
                shadow_obj = old                 # these return a new object: the old one must stay as it was
                ev['fresh'] = int(res is not old)
            gl = res
        except Exception as e:      # noqa
            ev['exc'] = 1
            ev['exc_type'] = type(e).__name__
            if gl is None:
                gl = _GL()([])
        pr = project(codec, gl)
        ev['order'] = pr['order']
        ev['content'] = _pairs(pr['content'])
        try:
            o = observe(codec, gl, obs_codes)
            ev['get'] = [[c, o['get'][c]] for c in obs_codes]
            ev['grp'] = [[c, o['group'][c]] for c in obs_codes]
            ev['has'] = o['contains']
            ev['vals'] = o['values']
            try:
                ev['rep'] = observe_repr(codec, gl)
            except Exception:       # outside C13: a conformance remark only
                ev['rep'] = [[0, -1, -1]]
        except Exception as e:      # observers must not raise on a consistent object
            ev['get'] = [[c, [-2]] for c in obs_codes]
            ev['grp'] = [[c, -2] for c in obs_codes]
            ev['has'] = []
            ev['vals'] = []
            ev['obs_exc'] = type(e).__name__
        if shadow_obj is not None:
            sp = project(codec, shadow_obj)
            ev['shadow'] = {'order': sp['order'], 'content': _pairs(sp['content'])}
        else:
            ev['shadow'] = empty
        events.append(ev)
        st = {'order': pr['order'], 'content': pr['content']}
        if ev['exc'] or -1 in pr['order'] or any(-1 in v or k == -1 for k, v in pr['content'].items()):
            break
        # the python mirror needs a well-formed state to propose the next valid op
        flat = [m for v in pr['content'].values() for m in v]
        if (len(set(pr['order'])) != len(pr['order']) or set(pr['content']) != set(pr['order'])
                or len(set(flat)) != len(flat) or any(k not in v for k, v in pr['content'].items())):
            break
    return {'id': f'glhist-{seed}', 'events': events,
            'meta': {'driver': 'gl.random_history', 'args': {'seed': seed, 'length': length, 'universe': universe}}}
