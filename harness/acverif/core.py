"""Run context, verdict attribution (violations vs. known findings), evidence and replay files."""
from __future__ import annotations

import hashlib
import json
import os
import sys
import time
from dataclasses import dataclass, field

from .tlc import VERIF, McResult

# (overridable so that sensitivity runs against scratch copies do not overwrite the committed evidence)
EVIDENCE_DIR = os.environ.get('VERIF_EVIDENCE_DIR') or os.path.join(VERIF, 'evidence')
REPLAY_DIR = os.environ.get('VERIF_REPLAY_DIR') or os.path.join(VERIF, 'replays')
FINDINGS_FILE = os.path.join(VERIF, 'known_findings.json')


def repo_path() -> str:
    return os.environ.get('VERIF_REPO', '/repo')


def use_repo():
    """Make `import AutoCarver` resolve to $VERIF_REPO's working tree (not a cached copy)."""
    rp = repo_path()
    if sys.path[0] != rp:
        sys.path.insert(0, rp)
    os.environ.setdefault('PYTHONHASHSEED', '0')
    import warnings
    warnings.filterwarnings('ignore')
    import AutoCarver  # noqa
    got = os.path.dirname(os.path.dirname(os.path.abspath(AutoCarver.__file__)))
    if os.path.realpath(got) != os.path.realpath(rp):
        raise RuntimeError(f'AutoCarver imported from {got}, expected {rp}')


def tree_hash() -> str:
    h = hashlib.sha256()
    root = os.path.join(repo_path(), 'AutoCarver')
    for d, _, files in sorted(os.walk(root)):
        for fn in sorted(files):
            if fn.endswith('.py'):
                p = os.path.join(d, fn)
                h.update(p[len(root):].encode())
                with open(p, 'rb') as f:
                    h.update(f.read())
    return h.hexdigest()[:16]


def jhash(obj) -> str:
    return hashlib.sha256(json.dumps(obj, sort_keys=True, default=str).encode()).hexdigest()[:12]


@dataclass
class Violation:
    clause: str                 # name of the violated property clause
    what: str                   # one-line human explanation
    sig: dict                   # signature used to match known findings (driver, call, config ...)
    replay: dict                # everything needed to re-execute the case (driver name + args)
    detail: dict = field(default_factory=dict)


@dataclass
class Ctx:
    pid: str
    tier: str
    seed: int
    t0: float = field(default_factory=time.time)
    design: list = field(default_factory=list)        # McResult summaries
    states: int = 0
    transitions: int = 0
    traces: int = 0                                    # real-code traces judged by TLC / replayed
    evaluations: int = 0
    nontrivial: set = field(default_factory=set)       # hashes of distinct non-trivial cases
    samples: list = field(default_factory=list)
    violations: list = field(default_factory=list)
    nonconforming: int = 0
    nonconf_samples: list = field(default_factory=list)
    notes: dict = field(default_factory=dict)
    assumptions: list = field(default_factory=list)
    rule: str = ''
    exhaustive: bool = False
    exhaustive_domain: str = ''
    level: str = 'model_checking'

    def add_design(self, r: McResult):
        self.design.append(r.summary())
        self.states += r.distinct
        self.transitions += r.generated

    def add_sample(self, s, limit=4):
        if len(self.samples) < limit:
            self.samples.append(s)

    def nonconf(self, what, sample=None):
        self.nonconforming += 1
        if len(self.nonconf_samples) < 5:
            self.nonconf_samples.append({'what': what, 'sample': sample})
            print(f'NONCONFORMANCE property={self.pid} {what}', file=sys.stderr)


def load_findings() -> list[dict]:
    if not os.path.exists(FINDINGS_FILE):
        return []
    with open(FINDINGS_FILE) as f:
        return json.load(f)['findings']


def _matches(finding: dict, pid: str, v: Violation) -> bool:
    if finding.get('state') != 'known' or finding.get('property') != pid:
        return False
    clauses = finding.get('clause')
    if isinstance(clauses, str):
        clauses = [clauses]
    if clauses and v.clause not in clauses:
        return False
    for k, want in (finding.get('match') or {}).items():
        got = v.sig.get(k)
        if isinstance(want, list):
            if got not in want:
                return False
        elif got != want:
            return False
    return True


def finish(ctx: Ctx) -> int:
    """Attribute violations, print the verdict lines, write evidence; returns the exit code."""
    findings = load_findings()
    hit: dict[str, dict] = {}
    unmatched: list[Violation] = []
    for v in ctx.violations:
        f = next((f for f in findings if _matches(f, ctx.pid, v)), None)
        if f is not None:
            h = hit.setdefault(f['id'], {'finding': f, 'count': 0, 'example': v.what})
            h['count'] += 1
        else:
            unmatched.append(v)
    for fid, h in sorted(hit.items()):
        print(f"KNOWN-FINDING: property={ctx.pid} {h['finding']['what']} [{fid}; {h['count']} case(s) this run]")
    os.makedirs(REPLAY_DIR, exist_ok=True)
    seen = set()
    replay_paths = []
    for v in unmatched:
        key = jhash([v.clause, v.replay])
        if key in seen:
            continue
        seen.add(key)
        path = os.path.join(REPLAY_DIR, f'{ctx.pid}-{key}.json')
        with open(path, 'w') as f:
            json.dump({'property': ctx.pid, 'clause': v.clause, 'what': v.what, 'sig': v.sig,
                       'replay': v.replay, 'detail': v.detail, 'tree': tree_hash()}, f, indent=1, default=str)
        replay_paths.append(path)
        if len(replay_paths) <= 25:
            print(f'VIOLATION property={ctx.pid} replay={path}')
            print(f'  clause={v.clause}: {v.what}')
    if len(replay_paths) > 25:
        print(f'  ... {len(replay_paths) - 25} more violations (replay files written)')
    write_evidence(ctx, hit, len(seen))
    return 1 if unmatched else 0


def write_evidence(ctx: Ctx, hit: dict, n_viol: int):
    os.makedirs(EVIDENCE_DIR, exist_ok=True)
    cov = {
        'states': int(ctx.states),
        'transitions': int(ctx.transitions),
        'traces_validated_against_impl': int(ctx.traces),
        'evaluations': int(ctx.evaluations),
        'distinct_nontrivial': len(ctx.nontrivial),
        'rule': ctx.rule,
        'samples': ctx.samples or ['(no case was produced)'],
        'exhaustive': bool(ctx.exhaustive),
        'exhaustive_domain': ctx.exhaustive_domain,
        'design_runs': ctx.design,
        'nonconforming': ctx.nonconforming,
        'nonconforming_samples': ctx.nonconf_samples,
        'known_findings_hit': {k: v['count'] for k, v in hit.items()},
        'tree_hash': tree_hash(),
        'repo': repo_path(),
    }
    cov.update(ctx.notes)
    ev = {
        'property_id': ctx.pid,
        'tier': ctx.tier,
        'seed': int(ctx.seed),
        'level': ctx.level,
        'coverage': cov,
        'assumptions': ctx.assumptions,
        'wall_s': round(time.time() - ctx.t0, 2),
        'violations': int(n_viol),
    }
    path = os.path.join(EVIDENCE_DIR, f'{ctx.pid}.json')
    tmp = path + '.tmp'
    with open(tmp, 'w') as f:
        json.dump(ev, f, indent=1, default=str)
    os.replace(tmp, path)
