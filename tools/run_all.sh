#!/bin/sh
# run every quick (or $1) check on /repo and print one line per property
TIER=${1:-quick}
cd "$(dirname "$0")/.."
for i in 01 02 03 04 05 06 07 08 09 10 11 12 13 14 15 16 17 18 19; do
  s=$(date +%s)
  bin/check C$i --tier $TIER > /tmp/runall_C$i.out 2> /tmp/runall_C$i.err
  rc=$?
  e=$(date +%s)
  echo "C$i exit=$rc $((e-s))s violations=$(grep -c '^VIOLATION' /tmp/runall_C$i.out) known=$(grep -c '^KNOWN-FINDING' /tmp/runall_C$i.out) nonconf=$(grep -c NONCONFORMANCE /tmp/runall_C$i.err)"
done
