#!/venv/bin/python
"""Sensitivity runs: apply every seeded change (seeded/<id>/patch.diff) to a scratch worktree of
/repo, run its demonstration and the quick check of the property it targets (and, with --all, every
other check) with VERIF_REPO pointing at the worktree, record the verdicts in seeded/RESULTS.json
and seeded/RESULTS.md.  Nothing is applied inside /repo; evidence / replay files of these runs go
to a scratch directory.

usage: tools/run_seeded.py [--only ID[,ID..]] [--all] [--tier quick|thorough]"""
import argparse
import json
import os
import shutil
import subprocess
import sys
import tempfile
import time

VERIF = os.path.dirname(os.path.dirname(os.path.abspath(__file__)))
SEEDED = os.path.join(VERIF, 'seeded')
if '--dir' in sys.argv:
    SEEDED = os.path.join(VERIF, sys.argv[sys.argv.index('--dir') + 1])
ALL = ['C%02d' % i for i in range(1, 20)]


def sh(cmd, **kw):
    return subprocess.run(cmd, capture_output=True, text=True, **kw)


def run_one(sid, props, tier):
    d = os.path.join(SEEDED, sid)
    meta = json.load(open(os.path.join(d, 'meta.json')))
    scratch = tempfile.mkdtemp(prefix='seeded-', dir=os.environ.get('TMPDIR') or '/tmp')
    wt = os.path.join(scratch, 'wt')
    res = {'id': sid, 'property': meta['property'], 'summary': meta.get('summary'), 'needs': meta.get('needs'), 'checks': {}}
    try:
        sh(['git', '-C', '/repo', 'worktree', 'add', '-q', '--detach', wt, 'HEAD'])
        ap = sh(['git', '-C', wt, 'apply', '--3way', os.path.join(d, 'patch.diff')])
        if ap.returncode != 0:
            ap = sh(['git', '-C', wt, 'apply', os.path.join(d, 'patch.diff')])
        res['applies'] = ap.returncode == 0
        if ap.returncode != 0:
            res['apply_error'] = ap.stderr[-500:]
            return res
        if os.path.exists(os.path.join(d, 'demo.py')):
            demo = sh(['/venv/bin/python', os.path.join(d, 'demo.py'), wt], env=dict(os.environ, PYTHONPATH=wt), timeout=600)
            res['demo_exit_with_patch'] = demo.returncode
        env = dict(os.environ, VERIF_REPO=wt, VERIF_EVIDENCE_DIR=os.path.join(scratch, 'ev'), VERIF_REPLAY_DIR=os.path.join(scratch, 'rp'),
                   VERIF_SEED=os.environ.get('VERIF_SEED', '0'))
        for p in props:
            t0 = time.time()
            pr = sh([os.path.join(VERIF, 'bin', 'check'), p, '--tier', tier], env=env, cwd=VERIF, timeout=7200)
            viol = [l for l in pr.stdout.splitlines() if l.startswith('VIOLATION')]
            clauses = sorted({l.strip().split(':')[0].replace('clause=', '') for l in pr.stdout.splitlines() if l.strip().startswith('clause=')})
            res['checks'][p] = {'exit': pr.returncode, 'violations': len(viol), 'clauses': clauses[:8], 'wall_s': round(time.time() - t0, 1),
                                'stderr_tail': pr.stderr[-300:] if pr.returncode == 2 else ''}
    finally:
        sh(['git', '-C', '/repo', 'worktree', 'remove', '--force', wt])
        shutil.rmtree(scratch, ignore_errors=True)
    return res


def main():
    ap = argparse.ArgumentParser()
    ap.add_argument('--only', default='')
    ap.add_argument('--all', action='store_true')
    ap.add_argument('--tier', default='quick')
    ap.add_argument('--dir', default='seeded')
    a = ap.parse_args()
    ids = sorted(x for x in os.listdir(SEEDED) if os.path.isdir(os.path.join(SEEDED, x)))
    if a.only:
        ids = [x for x in ids if x in a.only.split(',')]
    path = os.path.join(SEEDED, 'RESULTS.json')
    results = json.load(open(path)) if os.path.exists(path) else {}
    for sid in ids:
        meta = json.load(open(os.path.join(SEEDED, sid, 'meta.json')))
        props = ALL if a.all else [meta['property']]
        r = run_one(sid, props, a.tier)
        prev = results.get(sid, {})
        if prev.get('checks') and not a.all:
            merged = dict(prev['checks'])
            merged.update(r['checks'])
            r['checks'] = merged
        if os.path.exists(path):       # merge with what concurrent runs wrote meanwhile
            try:
                disk = json.load(open(path))
                disk.update({k: v for k, v in results.items() if k not in disk})
                results = disk
            except Exception:
                pass
        results[sid] = r
        t = r['checks'].get(meta['property'], {})
        print(sid, 'applies' if r.get('applies') else 'PATCH DOES NOT APPLY', 'demo exit', r.get('demo_exit_with_patch'),
              'target check exit', t.get('exit'), t.get('clauses'), flush=True)
        json.dump(results, open(path, 'w'), indent=1)
    write_md(results)


def write_md(results):
    lines = ['| seeded change | property | what was changed | needs | caught by its check (quick) | clauses | also caught by |', '|---|---|---|---|---|---|---|']
    for sid, r in sorted(results.items()):
        t = r['checks'].get(r['property'], {})
        others = [p for p, c in r['checks'].items() if p != r['property'] and c.get('exit') == 1]
        lines.append(f"| {sid} | {r['property']} | {(r.get('summary') or '').replace('|', '/')} | {(r.get('needs') or '').replace('|', '/')[:160]} | "
                     f"{'yes' if t.get('exit') == 1 else 'NO (exit %s)' % t.get('exit')} | {', '.join(t.get('clauses') or [])} | {', '.join(others)} |")
    open(os.path.join(SEEDED, 'RESULTS.md'), 'w').write('\n'.join(lines) + '\n')


if __name__ == '__main__':
    main()
