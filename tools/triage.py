#!/venv/bin/python
"""usage: triage.py kind clause [n] [nseeds] -- print examples of cases failing `clause`."""
import sys, json
sys.path.insert(0, '/verif/harness')
from collections import Counter
from acverif.props import estcommon as ec
from acverif import tlc
kind, clause = sys.argv[1], sys.argv[2]
n = int(sys.argv[3]) if len(sys.argv) > 3 else 3
ns = int(sys.argv[4]) if len(sys.argv) > 4 else 200
cases = ec.gen_cases(kind, list(range(ns)))
jr = tlc.judge('EstimatorTrace', cases, strip=ec.STRIP)
hits = [i for i, v in jr.verdicts.items() if clause in v]
print(len(hits), 'hits;', Counter(cases[i]['meta']['cls'] for i in hits))
for i in hits[:n]:
    c = cases[i]
    print('=' * 100)
    print(c['id'], c['meta']['cls'], jr.verdicts[i])
    print('spec:', json.dumps(c['meta']['spec_summary']))
    print('ops:', c['ops'])
    print('exc:', c['raw_exc'])
    if '-v' in sys.argv:
        for e in c['events']:
            print(json.dumps(e)[:1500])
