#!/venv/bin/python
"""Confirm a change produced by a seeding sub-agent and, if confirmed, keep it under seeded/.

usage: tools/import_seed.py Cxx A|B [--nosuite]
Confirmation, in a fresh scratch worktree of /repo's HEAD (removed afterwards):
  1. the demonstration exits 0 on the clean tree,
  2. the patch applies, the demonstration exits 1 with it,
  3. the repository's test suite passes with the patch (pytest -n 8)."""
import json
import os
import shutil
import subprocess
import sys
import tempfile

VERIF = os.path.dirname(os.path.dirname(os.path.abspath(__file__)))


def sh(cmd, **kw):
    return subprocess.run(cmd, capture_output=True, text=True, **kw)


def main():
    pid, which = sys.argv[1], sys.argv[2]
    src = f'/tmp/seed/{pid}/out/{which}'
    if not os.path.exists(os.path.join(src, 'patch.diff')):
        print('no such change', src)
        return 2
    scratch = tempfile.mkdtemp(prefix='confirm-', dir='/tmp')
    wt = os.path.join(scratch, 'wt')
    rec = {}
    try:
        sh(['git', '-C', '/repo', 'worktree', 'add', '-q', '--detach', wt, 'HEAD'])
        env = dict(os.environ, PYTHONPATH=wt, PYTHONHASHSEED='0')
        d0 = sh(['/venv/bin/python', os.path.join(src, 'demo.py'), wt], env=env, timeout=900)
        rec['demo_clean_exit'] = d0.returncode
        ap = sh(['git', '-C', wt, 'apply', '--3way', os.path.join(src, 'patch.diff')])
        if ap.returncode != 0:
            ap = sh(['git', '-C', wt, 'apply', os.path.join(src, 'patch.diff')])
        rec['applies'] = ap.returncode == 0
        if not rec['applies']:
            print(pid, which, 'PATCH DOES NOT APPLY to current HEAD:', ap.stderr[-300:])
            return 1
        d1 = sh(['/venv/bin/python', os.path.join(src, 'demo.py'), wt], env=env, timeout=900)
        rec['demo_patched_exit'] = d1.returncode
        rec['demo_patched_output'] = (d1.stdout + d1.stderr)[-400:]
        if '--nosuite' not in sys.argv:
            st = sh(['/venv/bin/python', '-m', 'pytest', '-q', '-p', 'no:cacheprovider', '-n', '8', '--timeout=900'], cwd=wt,
                    env=dict(os.environ, PYTHONHASHSEED='0'), timeout=3600)
            tail = st.stdout.strip().splitlines()[-1] if st.stdout.strip() else ''
            rec['suite'] = tail
            rec['suite_passed'] = st.returncode == 0 and '102 passed' in tail
        else:
            rec['suite_passed'] = None
        patch_now = sh(['git', '-C', wt, 'diff', 'HEAD', '--', 'AutoCarver']).stdout
    finally:
        sh(['git', '-C', '/repo', 'worktree', 'remove', '--force', wt])
        shutil.rmtree(scratch, ignore_errors=True)
    ok = rec['demo_clean_exit'] == 0 and rec['demo_patched_exit'] == 1 and rec['suite_passed'] in (True, None)
    print(pid, which, 'CONFIRMED' if ok else 'NOT CONFIRMED', rec)
    if ok:
        dst = os.path.join(VERIF, 'seeded', f'{pid}-{which}')
        os.makedirs(dst, exist_ok=True)
        open(os.path.join(dst, 'patch.diff'), 'w').write(patch_now)
        shutil.copy(os.path.join(src, 'demo.py'), os.path.join(dst, 'demo.py'))
        meta = json.load(open(os.path.join(src, 'meta.json')))
        meta['property'] = pid
        meta['origin'] = 'independent sub-agent given only the property text and a scratch worktree'
        meta['confirmed'] = {'demo_exit_clean_tree': rec['demo_clean_exit'], 'demo_exit_with_patch': rec['demo_patched_exit'],
                             'suite_with_patch': rec.get('suite'), 'ran': 'tools/import_seed.py (fresh worktree of /repo HEAD, pytest -n 8)'}
        json.dump(meta, open(os.path.join(dst, 'meta.json'), 'w'), indent=1)
    return 0 if ok else 1


if __name__ == '__main__':
    sys.exit(main())
