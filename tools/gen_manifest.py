#!/venv/bin/python
"""Regenerates /verif/MANIFEST.json from the table below (run after adding a check)."""
import json, os
HERE = os.path.dirname(os.path.dirname(os.path.abspath(__file__)))
props = [json.loads(l) for l in open(os.path.join(HERE, 'properties.jsonl'))]

BASELINE = "cd /repo && /venv/bin/python -m pytest -ra -q -p no:cacheprovider --timeout=900 --continue-on-collection-errors"

CLAIMED = {
    'C13': dict(
        text="TLC explores the complete reachable state graph of specs/GroupedList.tla (one action per public method, enabled on valid calls) "
             "for a 4-value universe (5 in thorough) and checks the consistency invariants, observer agreement and the no-loss action property in "
             "every state, i.e. for histories of any length over that universe; every transition of that graph is then executed on the real class "
             "(spec->code, one implementation test per transition, exhaustive), and seeded random histories over 8 values are executed on the real "
             "class and judged step by step by TLC with specs/GroupedListTrace.tla (code->spec).",
        note="Trusted: TLC, the projection in harness/acverif/drivers/gl.py, the Valid* preconditions of specs/GL.tla as the meaning of 'valid operation'. "
             "Beyond the small universes the evidence is sampled histories.",
        technique="TLA+ spec + TLC complete state graph, transition-by-transition replay into the code, TLC trace validation of recorded histories",
        design_ref="DESIGN.md §5.1, §6 C13"),
}
CLAIMED['C01'] = dict(
    text="Design: TLC model-checks specs/Carver.tla (two-stage 'test candidates in descending exact measure, first viable wins' search; exact "
         "rational/BigNat measures for Cramer's V, Tschuprow's T, Kruskal-Wallis; ties explored as nondeterminism; viability verdict anywhere "
         "between the Strict and Loose reading) over every table in small bounds with invariants Inv_C01_opt / Inv_C01_drop. Binding (code->spec): "
         "real BinaryCarver/ContinuousCarver fits on an enumerated small-table domain (each table as quantitative, ordinal and categorical column) and on "
         "seeded random frames; per feature the observed base table, history rows, fitted grouping are judged by TLC with specs/CarverTrace.tla, which "
         "re-enumerates all candidate groupings and recomputes optimality exactly.",
    note="Trusted: TLC, the projection in harness/acverif/drivers/carve.py (base buckets observed from the carver's own internal Discretizer), exact-vs-float "
         "agreement inside the n<=64 envelope (DESIGN 4.2). Beyond the enumerated tables the evidence is sampled.",
    technique="TLA+ design model checked by TLC + TLC trace validation of real carver fits (exact-arithmetic oracle in TLA+)",
    design_ref="DESIGN.md §5.5, §6 C01")
CLAIMED['C02'] = dict(
    text="Design: Inv_C02 (group count and frequency bounds of every fitted state) on all Carver.tla model-checking runs. Binding: the same real fits as C01; "
         "rows of transform(X_train)/transform(X_dev) are logged as (label, y, input-was-missing) and TLC (CarverTrace.tla) recounts label counts, frequencies, "
         "missing-value handling, dev label set and train/dev mean-y order from the rows alone.",
    note="Trusted: TLC, the row projection of drivers/carve.py. Dev-rank clause uses the Loose reading (no strict inversion).",
    technique="TLA+ design model checked by TLC + TLC trace validation of transform outputs of real fits",
    design_ref="DESIGN.md §5.5, §6 C02")

EST_NOTE = ("Trusted: TLC, the projection / encoding in harness/acverif/drivers/estimator.py (integer codes, label interning), the history generators "
            "in drivers/est_gen.py. Histories are seeded random samples of the input space; the design model is exhaustive only for one feature over 3 values.")
def est(text, design_ref):
    return dict(text="Design: TLC model-checks specs/Estimator.tla (life-cycle of one fitted feature: merges, fit, single-cell transforms incl. unseen / missing / "
                     "out-of-range cells, valid manual edits, reload, refused calls) with the invariants of this property. Binding (code->spec): " + text +
                     " Every recorded call is judged by TLC with specs/EstimatorTrace.tla from the previously observed state using the operators of EstimatorOps.tla / GL.tla.",
                note=EST_NOTE, technique="TLA+ life-cycle model checked by TLC + TLC trace validation of recorded call histories of the real objects",
                design_ref=design_ref)
CLAIMED['C04'] = est("fit -> transform(training frame) -> JSON reload -> transform histories on all 10 discretizer / carver classes; TLC recomputes the group and label of every row from the observed values_orders.", "DESIGN.md §5.2, §6 C04")
CLAIMED['C05'] = est("fit -> transforms of derived frames (boundaries and their nextafter neighbours, out of range, huge magnitudes, unseen categories, injected missing values, empty / single-row frames); TLC decides rejection (and the feature to be named) or the label of every cell.", "DESIGN.md §5.2, §6 C05")
CLAIMED['C06'] = est("fit -> (edits) -> json round trip -> the same probe frames on original and reloaded object compared cell by cell, summary and re-serialised JSON compared.", "DESIGN.md §5.2, §6 C06")
CLAIMED['C07'] = est("fit_transform vs fit+transform on twin objects; shuffled sequences of transforms of the training frame, row subsets, permutations, re-indexed copies and probe frames, each output checked row by row, state / inputs / index / columns unchanged.", "DESIGN.md §5.2, §6 C07")
CLAIMED['C08'] = est("fits of every class on degenerate shapes (constant, all-missing, near-unique, equally rare discrete values, tiny samples, spikes): outcome in {ok, AssertionError}, every values_orders entry a well-formed ordered partition covering the training values, attributes coherent, dropped columns untouched.", "DESIGN.md §5.2, §6 C08")
CLAIMED['C16'] = est("fit -> summary() / summary(feature) (-> reload -> summary()) histories judged against the observed values_orders; history() clauses (raw row, tested rows, last viable row = fitted grouping) are judged on real carver fits with specs/CarverTrace.tla (design: Inv_C16_hist of Carver.tla).", "DESIGN.md §5.2, §5.5, §6 C16")
CLAIMED['C17'] = est("fit -> sequences of valid update_discretizer edits, each followed by transform, summary and reload+transform; TLC recomputes the edited values_orders with the GroupedList operators (UpdateVo) and compares; design invariant Inv_C17_Edit states the partition effect of an edit.", "DESIGN.md §5.2, §6 C17")
CLAIMED['C19'] = est("malformed calls of every listed class injected before and after a successful fit on the 6 anchored classes: outcome must be AssertionError, projected state / JSON / transform(training frame) unchanged.", "DESIGN.md §5.2, §6 C19")

CLAIMED['C09'] = dict(
    text="Design: TLC model-checks specs/BaseStage.tla (exact model of ContinuousDiscretizer's recursive quantile search and of the rare-modality merge loop, one action per merge, "
         "with termination) over every sorted sample of <= 6 (8 thorough) values out of 5 x missing count x 9 thresholds incl. non-integer 1/min_freq, and every ordinal count vector "
         "K<=3 (4), with the C09 bounds as invariants (the frequent-value clause outside the region of known finding F10, inside which a witness run must still find the counterexample). "
         "Binding (code->spec): real fits of the six base-stage classes on the same enumerated domain (quick: sample), run-length and random samples; the fitted values_orders and every "
         "observed merge decision are judged by TLC with specs/BaseTrace.tla (property clauses on the observed result, conformance = equality with the exact model).",
    note="Trusted: TLC, the projection of drivers/base.py (ranks, counts), exact-vs-float agreement of frequency comparisons for n<=64. Known finding F10 (q = round(1/min_freq)) is matched "
         "by a TLC-computed predicate (every missing frequent value is infrequent for the rounded q).",
    technique="TLA+ exact algorithm model checked by TLC over enumerated small samples + TLC trace validation of real fits and merge decisions",
    design_ref="DESIGN.md §5.3, §5.4, §6 C09")
CLAIMED['C03'] = dict(
    text="Design: Inv_C03_Runs (BaseStage.tla: every merge joins neighbours), Inv_C03 (Carver.tla: fitted groups are runs of the base modalities), Inv_C03_Monotone (Estimator.tla: float "
         "transform is non-decreasing). Binding: (1) base-stage fits judged with BaseTrace.tla (merge into a neighbour, groups are intervals / contiguous runs, categorical order by target rate); "
         "(2) real carver fits judged with CarverTrace.tla (groups contiguous w.r.t. the base modalities observed from the carver's internal Discretizer); (3) fit -> transform(sweep frame over "
         "the real line / over the ordinal ranking) histories judged with EstimatorTrace.tla (monotone outputs, index of the first boundary >= x, last interval unbounded).",
    note="Trusted: TLC, the projections of drivers/base.py, carve.py, estimator.py; finite probes stand for the real line (order-isomorphic rank codes).",
    technique="TLA+ design models checked by TLC + TLC trace validation of real fits, merge decisions and sweep transforms",
    design_ref="DESIGN.md §5.3-§5.5, §6 C03")

CLAIMED['C18'] = dict(
    text="Design: TLC model-checks specs/Chained.tla (level-by-level merge of rare members into their parent, frequencies taken once per level) over 6 hierarchy shapes (2-3 levels, uneven "
         "fan-out, a leaf attached to the top, a lone root) x all counts 0..2 (3 thorough) per node x 3 thresholds x missing counts, against the recursive characterisation of C18 "
         "(FinalLeader / Pooled of ChainedOps.tla), with termination. Binding (code->spec): real ChainedDiscretizer fits + transforms on seeded random hierarchies incl. never-observed members, "
         "intermediate names observed directly, numeric leaves, missing rows and unknown values under both unknown_handling policies, judged by TLC with specs/ChainedTrace.tla.",
    note="Trusted: TLC, the projection of drivers/chained.py (node ids by string form, direct counts). Hierarchies beyond the 6 design shapes are covered by sampled conformance only.",
    technique="TLA+ design model checked by TLC + TLC trace validation of real fits",
    design_ref="DESIGN.md §5.4, §6 C18")

CLAIMED['C12'] = dict(
    text="Design: TLC model-checks specs/Multiclass.tla (classes ordered as strings by an explicit lexicographic comparison of character codes, first class skipped, one per-class carve with a "
         "nondeterministic kept set, columns f_c created) for 5 label sets incl. 1/2/10 and 9/10/11 against Inv_C12 (columns = expected one-vs-rest set). Binding (code->spec): each case fits "
         "one real MulticlassCarver and k independent BinaryCarvers with the same constructor parameters on the class indicators; TLC (MulticlassTrace.tla) derives the expected columns from "
         "the class labels and compares the column set and every output column row by row.",
    note="Trusted: TLC, drivers/multiclass.py (label interning shared by both sides, reference carver construction). The per-class carving itself is covered by C01/C02.",
    technique="TLA+ composition model checked by TLC + TLC trace validation against independent one-vs-rest reference fits",
    design_ref="DESIGN.md §5.6, §6 C12")

CLAIMED['C10'] = dict(
    text="Design: TLC model-checks specs/Parallel.tla (3 features in every iteration order, 2 and 3 workers, dispatch / completion / collection interleavings, imap_unordered and apply_async "
         "collection) with Inv_C10 (the merged result is FitOne(f) for every feature) and termination. Binding (spec->code): every terminal state of the TLC state dump is a schedule (iteration "
         "order, completion order) that is replayed on the real ContinuousDiscretizer, Discretizer and BinaryCarver through a fake Pool (tasks executed in the completion order, pickled arguments "
         "and results); further runs use feature subsets, shuffled list / column orders, child interpreters with other PYTHONHASHSEED values and real multiprocessing pools. TLC "
         "(ParallelTrace.tla) compares every run's per-feature projection with the feature fitted alone, sequentially.",
    note="Trusted: TLC, harness/acverif/fakepool.py (Pool stand-in patched into the three modules that import Pool), projection by canonical text. Real OS scheduling is not controllable; real pools are smoke runs.",
    technique="TLA+ scheduling model checked by TLC; every TLC behaviour replayed into the code through a schedule-driven fake pool",
    design_ref="DESIGN.md §5.6, §6 C10")

CLAIMED['C11'] = dict(
    text="Design: TLC checks on specs/BaseStage.tla that the quantile search commutes with strictly increasing re-encodings of the values (Inv_C11_Quantiles, every sorted sample of <= 6 (8) "
         "values x thresholds x 3 monotone maps); the carving model only sees counts per ordered bucket. Binding (code->spec): each case fits a real carver on a seeded sample and on its "
         "re-encodings (row permutation with index, index relabelling, exact affine maps checked with Fraction, order-preserving category renamings); TLC (ReencodeTrace.tla) checks that the "
         "abstract input is unchanged, that the kept sets are equal and that the row partitions induced by transform are equal as equivalence relations.",
    note="Trusted: TLC, drivers/reencode.py (re-encoding generators, rank projection). Sampled; exact affine maps restricted to dyadic factors.",
    technique="TLA+ invariance property model-checked by TLC + TLC judging of paired real executions",
    design_ref="DESIGN.md §6 C11")

CLAIMED['C14'] = dict(
    text="Design: TLC model-checks specs/Selector.tla (rank by measure with ties in any order and undefined measures dropped, greedy 'keep unless too associated with a kept better-ranked "
         "feature' filter one feature per action, n_best cut) for 4 features x all measure levels / undefined entries x all 64 association matrices x n_best, against Inv_C14 and termination. "
         "Binding (code->spec): real ClassificationSelector / RegressionSelector runs on seeded frames with correlated clusters, copies, ties, NaN-heavy and constant columns; the harness "
         "recomputes every measure and inter-feature association from numpy primitives; TLC (SelectorTrace.tla) judges the returned list with the operators of SelectorOps.tla and compares the "
         "library's measure values with the recomputation.",
    note="Trusted: TLC, the independent recomputation in drivers/selector.py (TLC has no floating point: numeric agreement is compared on scaled integers), seeded sampling. Known finding F08a is "
         "matched by a TLC-computed predicate (every unexplained omission has recomputed distance 0 and no library value).",
    technique="TLA+ design model checked by TLC + TLC trace validation of real selections against independently recomputed measure tables",
    design_ref="DESIGN.md §5.6, §6 C14")
CLAIMED['C15'] = dict(
    text="Design: Inv_C15_Top of specs/Selector.tla (the strictly best-ranked defined feature is always returned); the abstract measure table is unchanged by the re-encodings. Binding: paired "
         "real runs (negate / rescale a quantitative feature, rename categories, permute rows, permute columns) judged by TLC with ReencodeTrace.tla (same returned list in the same order, up "
         "to exchanging exactly tied features), and frames containing a copy / increasing affine image of the target judged with SelectorTrace.tla (it must be returned).",
    note="Trusted: TLC, drivers/selector.py. Known findings F08b / F08c (default RegressionSelector distance measure) are matched by call-site predicates (task = regression, default quantitative measure).",
    technique="TLA+ design invariant checked by TLC + TLC judging of paired real executions",
    design_ref="DESIGN.md §5.6, §6 C15")

NOT_YET = "check not built yet in this round (planned, see DESIGN.md §9); no claim is made"

checks, na = [], []
for p in props:
    pid = p['id']
    if pid in CLAIMED:
        c = CLAIMED[pid]
        checks.append({
            'property_id': pid,
            'quick_cmd': f'bin/check {pid} --tier quick',
            'thorough_cmd': f'bin/check {pid} --tier thorough',
            'evidence_file': f'/verif/evidence/{pid}.json',
            'replay_cmd_template': f'bin/check {pid} --replay {{path}}',
            'engine': 'tlc',
            'level_claimed': {'category': 'model_checking', 'text': c['text'], 'design_ref': c['design_ref']},
            'level_note': c['note'],
            'technique': c['technique'],
        })
    else:
        na.append({'property_id': pid, 'reason': NA_REASON.get(pid, NOT_YET) if 'NA_REASON' in globals() else NOT_YET})

manifest = {
    'version': 1,
    'setup_cmd': 'bin/setup',
    'hooks': {
        'guard': 'AUTOCARVER_VERIF',
        'enable': 'no source hooks: observation points are the public API plus run-time wrapping of module attributes from the harness (add-only, inside driver processes); the guard name is reserved and unused',
        'baseline_off_cmd': BASELINE,
        'source_commits': [],
        'add_only': True,
    },
    'engines': [
        {'name': 'tlc', 'path': 'harness/acverif/tlc.py', 'serves_properties': sorted(CLAIMED),
         'kind_free_text': 'TLC 1.8 on specs/*.tla: design model checking (MC_*.cfg) and trace judging (*Trace.tla) of executions recorded from /repo working tree'},
        {'name': 'drivers', 'path': 'harness/acverif/drivers', 'serves_properties': sorted(CLAIMED),
         'kind_free_text': 'python drivers that run the real code of $VERIF_REPO (default /repo) and record / replay abstract traces'},
    ],
    'checks': checks,
    'not_applicable': na,
    'notes': 'All checks import AutoCarver from $VERIF_REPO (default /repo working tree) at run time; nothing is cached. '
             'fix: commits in /repo are listed in known_findings.json (state fixed).',
}
with open(os.path.join(HERE, 'MANIFEST.json'), 'w') as f:
    json.dump(manifest, f, indent=1)
print('checks:', [c['property_id'] for c in checks], 'not_applicable:', len(na))
