#!/usr/bin/env python3-vt
import json, sys, glob, jsonschema
m = json.load(open('/verif/MANIFEST.json'))
jsonschema.validate(m, json.load(open('/root/.vp/MANIFEST.schema.json')))
es = json.load(open('/root/.vp/EVIDENCE.schema.json'))
bad = 0
for p in sorted(glob.glob('/verif/evidence/*.json')):
    try:
        jsonschema.validate(json.load(open(p)), es)
    except Exception as e:
        print('INVALID', p, str(e)[:300]); bad += 1
print('manifest ok; evidence files checked:', len(glob.glob('/verif/evidence/*.json')), 'invalid:', bad)
sys.exit(1 if bad else 0)
