#!/venv/bin/python
"""Run the repository's test suite with each listed seeded change applied (scratch worktree of /repo HEAD,
removed afterwards) and record the result in seeded/<id>/meta.json (confirmed.suite_with_patch).

usage: tools/confirm_suite.py ID[,ID...] [-n WORKERS]"""
import json
import os
import shutil
import subprocess
import sys
import tempfile

VERIF = os.path.dirname(os.path.dirname(os.path.abspath(__file__)))


def sh(cmd, **kw):
    return subprocess.run(cmd, capture_output=True, text=True, **kw)


def main():
    ids = sys.argv[1].split(',')
    nw = sys.argv[sys.argv.index('-n') + 1] if '-n' in sys.argv else '8'
    for sid in ids:
        d = os.path.join(VERIF, 'seeded', sid)
        scratch = tempfile.mkdtemp(prefix='suite-', dir='/tmp')
        wt = os.path.join(scratch, 'wt')
        try:
            sh(['git', '-C', '/repo', 'worktree', 'add', '-q', '--detach', wt, 'HEAD'])
            ap = sh(['git', '-C', wt, 'apply', os.path.join(d, 'patch.diff')])
            if ap.returncode != 0:
                print(sid, 'PATCH DOES NOT APPLY', ap.stderr[-200:], flush=True)
                continue
            st = sh(['/venv/bin/python', '-m', 'pytest', '-q', '-p', 'no:cacheprovider', '-n', nw, '--timeout=1800'], cwd=wt,
                    env=dict(os.environ, PYTHONHASHSEED='0'), timeout=7200)
            tail = st.stdout.strip().splitlines()[-1] if st.stdout.strip() else ''
            ok = st.returncode == 0 and '102 passed' in tail
            meta = json.load(open(os.path.join(d, 'meta.json')))
            meta.setdefault('confirmed', {})['suite_with_patch'] = tail
            meta['confirmed']['ran'] = 'tools/import_seed.py --nosuite + tools/confirm_suite.py (fresh worktree of /repo HEAD, pytest -n %s)' % nw
            meta['suite_passed'] = bool(ok)
            json.dump(meta, open(os.path.join(d, 'meta.json'), 'w'), indent=1)
            print(sid, 'SUITE OK' if ok else 'SUITE FAILED', tail, flush=True)
        finally:
            sh(['git', '-C', '/repo', 'worktree', 'remove', '--force', wt])
            shutil.rmtree(scratch, ignore_errors=True)


if __name__ == '__main__':
    main()
